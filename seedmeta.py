#!/usr/bin/env python3
"""writes seeded/<id>/meta.json from notes.md, patch.diff, confirm.txt and the detection matrix (/var/tmp/matrix/summary.txt, produced by
seedmatrix.sh); also prints the DESIGN.md table.  A seed's 'detected' field is only set from an actual run."""
import os, re, json, sys
S = "/verif/seeded"
mat = {}
if os.path.exists("/var/tmp/matrix/summary.txt"):
    for l in open("/var/tmp/matrix/summary.txt"):
        m = re.match(r"(\S+) (?:only='([^']*)' )?rc=(\d+) secs=(\d+) (\d+) violations; ?(.*)", l.strip())
        if m:
            mat[m.group(1)] = {"only": m.group(2) or "", "rc": int(m.group(3)), "secs": int(m.group(4)), "violations": int(m.group(5)), "first": m.group(6)}
WHY = json.load(open("/verif/seeded/missed_reasons.json")) if os.path.exists("/verif/seeded/missed_reasons.json") else {}
rows = []
for d in sorted(os.listdir(S)):
    p = os.path.join(S, d)
    if not os.path.isdir(p):
        continue
    notes = open(os.path.join(p, "notes.md")).read() if os.path.exists(os.path.join(p, "notes.md")) else ""
    title = notes.split("\n")[0].lstrip("# ").strip()
    m = re.search(r"^##[^\n]*(needed|needs|trigger|manifest|condition)[^\n]*\n(.*?)(?=^## |\Z)", notes, re.I | re.S | re.M)
    needs = re.sub(r"\s+", " ", m.group(2)).strip()[:700] if m else ""
    files = re.findall(r"^\+\+\+ b/(\S+)", open(os.path.join(p, "patch.diff")).read(), re.M)
    conf = open(os.path.join(p, "confirm.txt")).read() if os.path.exists(os.path.join(p, "confirm.txt")) else ""
    conf = [l for l in conf.split("\n") if l and not l.startswith("/usr/bin/ld")]
    prop = d.split("_")[0]
    r = mat.get(d)
    old = {}
    if os.path.exists(os.path.join(p, "meta.json")):
        try:
            old = json.load(open(os.path.join(p, "meta.json")))
        except Exception:
            old = {}
    meta = {"seed": d, "property": prop, "title": title, "files_changed": files, "needs_to_manifest": needs,
            "demonstration": sorted(f for f in os.listdir(p) if f.startswith("demo")),
            "confirmed_in_scratch_worktree": {"script": "seedconfirm2.sh" if os.path.exists(os.path.join(p, "demo.sh")) else "seedconfirm.sh", "result": conf,
                "meaning": "unpatched: demonstration exits 0; patched: tree builds, demonstration exits non-zero, make check 198/198 pass"}}
    if r:
        cmd = "./check %s --tier quick" % prop + (" --only '%s'" % r["only"] if r["only"] else "")
        meta["check_run"] = {"how": "seedrun.sh: scratch copy of /repo with patch.diff applied, VERIF_REPO pointed at it", "command": cmd,
                             "restricted_to_query_families": bool(r["only"]), "exit_code": r["rc"], "violations_reported": r["violations"], "first_violation": r["first"], "seconds": r["secs"]}
        meta["detected"] = r["rc"] == 1 and r["violations"] > 0
        if not meta["detected"]:
            meta["why_missed"] = WHY.get(d, "")
    elif "check_run" in old:
        meta["check_run"] = old["check_run"]; meta["detected"] = old.get("detected")
        if old.get("why_missed"):
            meta["why_missed"] = old["why_missed"]
    json.dump(meta, open(os.path.join(p, "meta.json"), "w"), indent=1)
    q = (meta.get("check_run") or {}).get("first_violation", "")
    q = re.sub(r".*replay=/verif/replays/\w+/", "", q).replace("/replay.json", "")
    det = meta.get("detected")
    print("| %s | %s | %s | %s |" % (d, title[:100], "caught" if det else ("MISSED" if det is False else "not run"), q or (meta.get("why_missed", "")[:110] + "...")))
