#!/bin/sh
# runs the registered quick command of every property in turn in /verif against /repo (evidence is rewritten by each check)
cd /verif; mkdir -p /var/tmp/runall
for p in "$@"; do
  t0=$(date +%s); ./check $p --tier quick > /var/tmp/runall/$p.log 2>&1; rc=$?; t1=$(date +%s)
  echo "$p rc=$rc secs=$((t1-t0)) $(grep -c '^VIOLATION' /var/tmp/runall/$p.log) violations $(grep -c '^KNOWN-FINDING' /var/tmp/runall/$p.log) known; $(tail -3 /var/tmp/runall/$p.log | grep 'tier=quick' | cut -c1-200)" >> /var/tmp/runall/summary.txt
done
