from vf import Query, G
LEVEL = "model_checking"
BASE = ["memory.c", "assert.c", "mp_bpl.c", "errno.c", "tal-reent.c", "mpz/realloc.c"]
LIN = [G + x + ".c" for x in ("add_n", "sub_n", "cmp", "add", "sub", "add_1", "sub_1", "copyi", "copyd", "zero", "lshift", "rshift", "neg_n", "com_n")]
MPF = ["mpf/%s.c" % x for x in ("add", "sub", "add_ui", "sub_ui", "ui_sub", "set_z", "set", "neg", "abs", "set_ui", "set_si")]

def queries(ctx):
    quick = ctx.tier == "quick"
    qs = []
    def add(name, h, units, defs, unwind, funcs, timeout=300, **kw):
        qs.append(Query(name, h, units, defs, unwind=8, hunwind=unwind, funcs=funcs, timeout=timeout if quick else 1200, **kw))
    precs = (2,) if quick else (2, 3)
    for prec in precs:
        if quick:
            light = [(1, 1), (1, 2), (2, 3), (3, 1), (3, 3), (-2, -1), (0, 2), (-3, 0)]
            sh = []
            for su, sv in light:
                for ed in ((0,) if 0 in (su, sv) else (-3, -1, 0, 1, 2)):
                    sh.append((su, sv, ed, (0, 1, 2) if ed == 0 and su and sv else (0,)))
            for su, sv in ((1, -1), (2, -3), (-3, 2)):
                for ed in (-1, 1, 2):
                    sh.append((su, sv, ed, (0,)))
            for su, sv in ((1, -1), (2, -1), (-1, 2)):       # complete-cancellation shapes: measured 80-550 s each at 2-3 limbs
                sh.append((su, sv, 0, (0,)))
        else:
            sh = []
            for su in range(-prec - 1, prec + 2):
                for sv in range(-prec - 1, prec + 2):
                    for ed in ((0,) if 0 in (su, sv) else range(-prec - 2, prec + 3)):
                        sh.append((su, sv, ed, (0, 1, 2) if (su and sv and ed in (0, 1)) else (0,)))
        for fn, nm in ((0, "add"), (1, "sub")):
            for su, sv, ed, als in sh:
                if fn == 1: sv = -sv          # same cancellation structure for sub
                for al in als:
                    add("mpf_%s.prec%d.su%d.sv%d.ed%d.alias%d" % (nm, prec, su, sv, ed, al), "C13_mpf_aors.c", MPF + LIN + BASE,
                        {"FN": fn, "RPREC": prec, "PU": prec, "PV": prec, "SU": "(%d)" % su, "SV": "(%d)" % sv, "EU": "(%d)" % (1 + max(ed, 0)), "EV": "(%d)" % (1 + max(-ed, 0)), "ALIAS": al, "FW": 14},
                        32, ["mpf/%s.c:mpf_%s" % (nm, nm)], timeout=600)
        for fn, nm in ((2, "add_ui"), (3, "sub_ui"), (4, "ui_sub")):
            for su in ((-3, -1, 0, 1, 3) if quick else range(-prec - 1, prec + 2)):
                cancel = (su < 0) if fn == 2 else (su > 0)
                for eu in ((0,) if su == 0 else ((1,) if cancel else (-1, 1, 2, 3)) if quick else range(-2, prec + 4)):
                    for al in ((0, 1) if eu == 1 and (not quick or not cancel) else (0,)):
                        add("mpf_%s.prec%d.su%d.eu%d.alias%d" % (nm, prec, su, eu, al), "C13_mpf_aors.c", MPF + LIN + BASE,
                            {"FN": fn, "RPREC": prec, "PU": prec, "SU": "(%d)" % su, "EU": "(%d)" % eu, "ALIAS": al, "FW": 14}, 32, ["mpf/%s.c:mpf_%s" % (nm, nm)], timeout=600)
        for su in range(-prec - 3, prec + 4):
            for rs0 in (0, prec + 1):
                add("mpf_set_z.prec%d.su%d.rs%d" % (prec, su, rs0), "C13_mpf_aors.c", MPF + LIN + BASE, {"FN": 5, "RPREC": prec, "PU": prec, "SU": "(%d)" % su, "EU": 1, "ALIAS": 0, "RS0": rs0, "FW": 18}, 32, ["mpf/set_z.c:mpf_set_z"])
        for fn, nm in ((6, "set"), (7, "neg"), (8, "abs")):
            for pu in (prec, prec + 2):
                for su in range(-pu - 1, pu + 2):
                    for al in ((0, 1) if pu == prec else (0,)):
                        add("mpf_%s.prec%d.pu%d.su%d.alias%d" % (nm, prec, pu, su, al), "C13_mpf_aors.c", MPF + LIN + BASE, {"FN": fn, "RPREC": prec, "PU": pu, "SU": "(%d)" % su, "EU": 2, "ALIAS": al, "RS0": prec + 1},
                            32, ["mpf/%s.c:mpf_%s" % (nm, nm)])
    return qs

ASSUMPTIONS = [
 "mpf objects are built directly in an arbitrary well-formed state: precision RPREC limbs (RPREC+1 allocated), signed size, exponent concrete per query; all limb contents symbolic including limbs beyond |size|; low zero limbs are allowed (the format permits them)",
 "reference: exact sum/difference/assignment formed in a fixed-point two's-complement array (FW limbs, exponents inside the window is a checked harness bound)",
 "oracle: format rules after the call; |r - exact|*2^(p-2) < max(|u|,|v|) always, and < |exact| where no cancellation can occur (same-sign addition, assignments); r == exact when the operands and the exact value span at most RPREC-1 limbs (conservative form of 'fits in p bits', p = mpf_get_prec(r) = 64*(RPREC-1)). Under cancellation the library does not promise the relative bound (GMP documents mpf results as computed from operands truncated to the destination precision), so it is deliberately not asserted there",
]
MANIFEST = {
 "text": "Bounded model checking of the real mpf sources: mpf_add, mpf_sub, mpf_add_ui, mpf_sub_ui, mpf_ui_sub, mpf_set_z, mpf_set, mpf_neg, mpf_abs for every enumerated precision/size/sign/exponent-offset/alias shape and all limb contents against an exact fixed-point reference: format rules (top limb non-zero, at most prec+1 limbs, zero has exponent 0), error bound 2^(2-p), exactness when representable, operands unchanged.",
 "note": "Bounds: precision 2 limbs quick (2-3 thorough), operand sizes <= prec+1 (set/neg/abs also from operands of precision prec+2; set_z from integers up to prec+3 limbs), exponent offsets -3..2 quick. Complete-cancellation shapes cost 80-550 s each and are limited to 1-2 limb operands in the quick tier. Outside: mpf_mul/div/sqrt and their _ui forms, set_q, set_d, set_str/get_str, mul_2exp/div_2exp/ceil/floor/trunc and the get/fits functions (not yet harnessed). Found and fixed on the pinned tree: mpf_ui_sub returned zero with a non-zero exponent (known_findings.txt).",
 "technique": "bounded symbolic execution of the real C sources with CBMC (SAT), concrete shapes x symbolic limb contents, exact fixed-point reference oracle, native replay of counterexamples",
}
