import os
from vf import Query, MPZ_BASE, G, MPN_LIN
LEVEL = "model_checking"
MUL = [G + x + ".c" for x in ("mul_1", "addmul_1", "submul_1", "mul_basecase", "mul", "mul_n")]
# the pinned build links mpn/x86_64/sqr_basecase.asm; under CBMC its generic C twin stands in here (the asm itself is
# compared with that twin under C14)
SQR_TWIN = [G + "sqr_basecase.c"]

def queries(ctx):
    quick = ctx.tier == "quick"
    qs = []
    def add(name, h, units, defs, unwind, funcs, timeout=300, **kw):
        kw.setdefault("variant", "uf"); kw.setdefault("domain", "D-UF")
        qs.append(Query(name, h, units, defs, unwind=unwind, funcs=funcs, timeout=timeout if quick else 1500, **kw))
    K = 4 if quick else 6
    for fn, nm in ((0, "mul_1"), (1, "addmul_1"), (2, "submul_1")):
        for n in range(1, K + 1):
            for al in (0, 1):
                add("mpn_%s.n%d.alias%d" % (nm, n, al), "C01_mpn_mul1.c", [G + nm + ".c"], {"N": n, "FN": fn, "ALIAS": al}, n + 2, [G + nm + ".c:mpn_" + nm])
    shapes = [(1, 1), (2, 1), (2, 2), (3, 1), (3, 2), (4, 1)] if quick else [(1, 1), (2, 1), (2, 2), (3, 1), (3, 2), (3, 3), (4, 1), (4, 2), (5, 1), (5, 2), (6, 1)]
    for un, vn in shapes:
        add("mpn_mul_basecase.un%d.vn%d" % (un, vn), "C01_mpn_basecase.c", MUL, {"UN": un, "VN": vn, "FN": 0}, un + vn + 2, [G + "mul_basecase.c:mpn_mul_basecase"])
        add("mpn_mul.un%d.vn%d" % (un, vn), "C01_mpn_basecase.c", MUL + SQR_TWIN + MPN_LIN, {"UN": un, "VN": vn, "FN": 2}, un + vn + 2, [G + "mul.c:mpn_mul"], stubs=["sqr_basecase.asm -> generic C twin"])
        if un == vn:
            add("mpn_mul_n.n%d" % un, "C01_mpn_basecase.c", MUL + SQR_TWIN + MPN_LIN, {"UN": un, "VN": vn, "FN": 3}, un + vn + 2, [G + "mul_n.c:mpn_mul_n"], stubs=["sqr_basecase.asm -> generic C twin"])
    return qs

def _mpz(ctx, qs, add, quick):
    base = MUL + SQR_TWIN + MPN_LIN + MPZ_BASE + ["tal-reent.c", "mpz/mul.c", "mpz/mul_ui.c", "mpz/mul_si.c", "mpz/aorsmul.c", "mpz/aorsmul_i.c", "mpz/add.c", "mpz/sub.c", "mpz/set.c", "mpz/init.c", "mpz/clear.c"]
    K = 2 if quick else 3
    st = ["sqr_basecase.asm -> generic C twin"]
    for su in range(-K, K + 1):
        for sv in range(-K, K + 1):
            for al in range(5):
                if al >= 3 and sv != su:
                    continue
                need = abs(su) + abs(sv)
                for aw in (sorted(set([1, max(1, need)])) if al in (0, 3) else [0]):
                    add("mpz_mul.su%d.sv%d.alias%d.aw%d" % (su, sv, al, aw), "C01_mpz_mul.c", base, {"SU": "(%d)" % su, "SV": "(%d)" % sv, "ALIAS": al, "AW": max(1, aw), "FN": 0},
                        need + 4, ["mpz/mul.c:mpz_mul"], variant="ufc+ufr", stubs=st)
    K = 2 if quick else 4
    for fn, nm in ((1, "mul_ui"), (2, "mul_si")):
        for su in range(-K, K + 1):
            for al in (0, 1):
                for aw in (sorted(set([1, abs(su) + 1])) if al == 0 else [0]):
                    add("mpz_%s.su%d.alias%d.aw%d" % (nm, su, al, aw), "C01_mpz_mul.c", base, {"SU": "(%d)" % su, "SV": "1", "ALIAS": al, "AW": max(1, aw), "FN": fn}, abs(su) + 5, ["mpz/mul_i.h:mpz_" + nm], variant="ufc+ufr")
    K = 2 if quick else 3
    for fn, nm in ((3, "addmul"), (4, "submul")):
        for su in range(-K, K + 1):
            for sv in range(-K, K + 1):
                if quick and (su, sv) not in ((1, 1), (1, -1), (-1, 1), (-1, -1), (2, 1), (1, -2), (0, 1), (-1, 0)):
                    continue
                for sw in range(-K - 1, K + 2):
                    if quick and (abs(sw) > 2 or (abs(su) + abs(sv) == 3 and abs(sw) > 1)):
                        continue
                    for al in (0, 3):
                        if al == 3 and sv != su:
                            continue
                        add("mpz_%s.su%d.sv%d.sw%d.alias%d" % (nm, su, sv, sw, al), "C01_mpz_mul.c", base, {"SU": "(%d)" % su, "SV": "(%d)" % sv, "SW": "(%d)" % sw, "ALIAS": al, "AW": 0, "FN": fn},
                            abs(su) + abs(sv) + abs(sw) + 5, ["mpz/aorsmul.c:mpz_" + nm], variant="ufc+ufr", stubs=st)
    K = 2 if quick else 3
    for fn, nm in ((5, "addmul_ui"), (6, "submul_ui")):
        for su in range(-K, K + 1):
            for sw in range(-K - 1, K + 2):
                if quick and (abs(sw) > 2 or (abs(su) == 2 and abs(sw) > 1)):
                    continue
                add("mpz_%s.su%d.sw%d" % (nm, su, sw), "C01_mpz_mul.c", base, {"SU": "(%d)" % su, "SV": "1", "SW": "(%d)" % sw, "ALIAS": 0, "AW": 0, "FN": fn},
                    abs(su) + abs(sw) + 6, ["mpz/aorsmul_i.c:mpz_" + nm], variant="ufc+ufr")

FFT_BASE = ["tal-reent.c", "memory.c", "assert.c", "errno.c"]
FFT_STUBS = ["TMP_BALLOC_MP_PTRS -> static word array of recorded length (unit included into the harness)", "mpir_fft_split_bits, mpir_fft_combine_bits, mpir_fft_trunc_sqrt2, mpir_ifft_trunc_sqrt2, mpn_normmod_2expp1, mpn_mulmod_2expp1_basecase, mpn_div_2expmod_2expp1, mpn_zero -> contract stubs (harness/C01_fft_param.c)"]
def _fft(ctx, qs, quick):
    # (depth, w) with n*w a multiple of 64; even and odd depths; the pairs mpn_mul_fft_main can produce from the shipped FFT_TABs
    # depth 2 (n = 4) is what fits: the symbolic-start loops over the coefficient pointers cost 4 GB / 35-65 s per query there; depth 3 and
    # above were measured out of reach (memory-out at 12 GB or no verdict in 300 s) and are outside the claim.  The parameter arithmetic
    # is the same code for every depth; depth 2 is even, which is the parity where (n*w - (depth+1))/2 rounds.
    pairs = [(2, 16), (2, 32)] if quick else [(2, 16), (2, 32), (2, 48), (2, 64)]
    for d, w in pairs:
        for sqr in (0, 1):
            n = 1 << d
            qs.append(Query("fftparam.mul_trunc_sqrt2.depth%d.w%d.sqr%d" % (d, w, sqr), "C01_fft_param.c", FFT_BASE,
                            {"FN": 0, "DEPTH": d, "WW": w, "SQR": sqr}, unwind=4 * n + 3, timeout=300 if quick else 1500, variant="exact", domain="D-SHAPE",
                            funcs=["fft/mul_trunc_sqrt2.c:mpn_mul_trunc_sqrt2"], stubs=FFT_STUBS, mem_gb=8))

_q0 = queries
def queries(ctx):
    qs = _q0(ctx)
    quick = ctx.tier == "quick"
    def add(name, h, units, defs, unwind, funcs, timeout=300, **kw):
        kw.setdefault("variant", "uf"); kw.setdefault("domain", "D-UF")
        qs.append(Query(name, h, units, defs, unwind=unwind, funcs=funcs, timeout=timeout if quick else 1500, **kw))
    _mpz(ctx, qs, add, quick)
    _fft(ctx, qs, quick)
    return qs

MANIFEST = {
 "text": "Bounded model checking of the real multiplication sources with limb products abstracted to uninterpreted functions shared by code and oracle (domain D-UF: the translated mulq and the reference schoolbook call the same UF pair, so a proof holds for real products; a UF counterexample counts only if it reproduces natively): mpn_mul_1/addmul_1/submul_1, mpn_mul_basecase, mpn_mul, mpn_mul_n and the mpz layer (mpz_mul, mul_ui, mul_si, addmul, submul, addmul_ui, submul_ui) for every enumerated size/sign/alias/allocation shape and all limb contents. FFT regime (domain D-SHAPE): the real mpn_mul_trunc_sqrt2 worker with every leaf (split/combine, transforms, normmod, pointwise mulmod, div_2expmod) replaced by a stub asserting the leaf's documented contract, for symbolic operand lengths: chunk width, coefficient length, transform length, scaling by 2^(depth+2), the top-bit flags handed to the pointwise product, every coefficient inside the temporary block, and the necessary no-wrap condition m*(2^b-1)^2 <= 2^(nw).",
 "note": "Bounds: mpn n <= 4 (quick) / 6; basecase shapes up to 4x1,3x2 (quick) / 3x3,6x1 (thorough); mpz operand sizes <= 2 limbs (quick; accumulate forms: |su|+|sv| <= 3, accumulator -3..3 limbs) / 3-4 (thorough), every sign pair, u==v object, w==u, w==v, all-same, destination alloc 1 and exact. FFT parameter family: depth 2 (n = 4) with w = 16, 32 (thorough also 48, 64), multiplication and squaring, operand lengths symbolic up to what the transform holds (j1+j2-1 <= 4n); depth >= 3 measured out of reach (memory-out at 12 GB / no verdict in 300 s) and mpn_mul_fft_main's own search is checked under C15 (C15_calls.c FN 0). Outside: Karatsuba/Toom/FFT recombination values (products there are algebraic identities, measured out of reach: DESIGN 1 P4/P11) - those regimes get the size/contract checks of the D-SHAPE families; sqr_basecase.asm is represented by its generic C twin here and compared with it under C14.",
 "technique": "bounded symbolic execution of the real C sources with CBMC (SAT), limb products as shared uninterpreted functions, concrete shapes x symbolic limb contents, native replay of counterexamples",
}
