"""C20: C++ expression templates of mpirxx.h versus the C functions -- engine E3 (clang LLVM IR -> own symbolic executor -> z3).
See lib/ir2smt.py (encoder), lib/cxxgen.py (expression programs) and DESIGN.md section 4 C20."""
import os, sys, json, time, re, subprocess
from concurrent.futures import ThreadPoolExecutor
import vf
sys.path.insert(0, os.path.join(vf.VERIF, "lib"))
import cxxgen

LEVEL = "translation_validation"
CLANG = ["clang++-14", "-std=c++17", "-O1", "-fno-vectorize", "-fno-slp-vectorize", "-fno-unroll-loops", "-mllvm", "-inline-threshold=100000", "-S", "-emit-llvm", "-w"]


def ref_code(e, tmp, lines):
    """C code evaluating e node by node into fresh temporaries; returns (kind, c-expression of the value holder)"""
    k = e[0]
    if k == "leaf":
        nm = e[1]
        return ({"a": "z", "b": "z", "c": "z", "q": "q", "r": "q", "s": "q", "l": "l", "u": "u"}[nm], "I" + nm)
    def newz():
        tmp[0] += 1; n = "tz%d" % tmp[0]; lines.append("mpz_t %s; mpz_init (%s);" % (n, n)); return n
    def newq():
        tmp[0] += 1; n = "tq%d" % tmp[0]; lines.append("mpq_t %s; mpq_init (%s);" % (n, n)); return n
    def toz(x):
        if x[0] == "z": return x[1]
        n = newz(); lines.append("mpz_set_%s (%s, %s);" % ("si" if x[0] == "l" else "ui", n, x[1])); return n
    def toq(x):
        if x[0] == "q": return x[1]
        n = newq(); lines.append("mpq_set_z (%s, %s);" % (n, toz(x))); return n
    if k in ("un", "fn1"):
        x = ref_code(e[2], tmp, lines)
        fn = {"-": "neg", "abs": "abs", "~": "com"}[e[1]]
        if x[0] == "q":
            n = newq(); lines.append("mpq_%s (%s, %s);" % (fn, n, x[1])); return ("q", n)
        n = newz(); lines.append("mpz_%s (%s, %s);" % (fn, n, toz(x))); return ("z", n)
    x = ref_code(e[2], tmp, lines); y = ref_code(e[3], tmp, lines)
    return ref_bin_code(e[1], x, y, tmp, lines, newz, newq, toz, toq)


def ref_bin_code(op, x, y, tmp, lines, newz, newq, toz, toq):
    if x[0] == "q" or y[0] == "q":
        a, b = toq(x), toq(y)
        n = newq()
        if op == "/": lines.append("if (mpq_sgn (%s) == 0) return 3;" % b)
        lines.append("mpq_%s (%s, %s, %s);" % ({"+": "add", "-": "sub", "*": "mul", "/": "div"}[op], n, a, b)); return ("q", n)
    a, b = toz(x), toz(y)
    n = newz()
    if op in ("/", "%"): lines.append("if (mpz_sgn (%s) == 0) return 3;" % b)
    lines.append("mpz_%s (%s, %s, %s);" % ({"+": "add", "-": "sub", "*": "mul", "/": "tdiv_q", "%": "tdiv_r", "&": "and", "|": "ior", "^": "xor"}[op], n, a, b)); return ("z", n)


def replay_source(prog, alias, model):
    kind, tgt, asg, e = prog
    e = cxxgen_tuplify(e)
    groups = [g.split("=") for g in alias.split("|")] if alias != "-" else []
    rep = {}
    for g in groups:
        for x in g:
            rep[x] = sorted(g)[0]
    L = ['#include "mpirxx.h"', "#include <stdio.h>", "#include <stdlib.h>",
         'extern "C" __attribute__((noinline)) void w (mpz_class &a, mpz_class &b, mpz_class &c, mpq_class &q, mpq_class &r, mpq_class &s, long l, unsigned long u) { %s %s %s; }' % (tgt, asg, cxxgen.cxx(e)),
         "int main () {"]
    def mv(k, d="0"):
        return model.get(k, d)
    for z in "abc":
        L.append('mpz_class O%s ("%s"); mpz_t I%s; mpz_init_set (I%s, O%s.get_mpz_t ());' % (z, mv(rep.get(z, z)), z, z, z))
    for qn in "qrs":
        r_ = rep.get(qn, qn)
        L.append('mpq_class O%s; mpz_set_str (mpq_numref (O%s.get_mpq_t ()), "%s", 10); mpz_set_str (mpq_denref (O%s.get_mpq_t ()), "%s", 10); mpq_canonicalize (O%s.get_mpq_t ()); mpq_t I%s; mpq_init (I%s); mpq_set (I%s, O%s.get_mpq_t ());'
                 % (qn, qn, mv(r_ + "_num"), qn, mv(r_ + "_den", "1"), qn, qn, qn, qn, qn))
    L.append("long Il = %sL; unsigned long Iu = %sUL;" % (str(int(mv("l"))) if int(mv("l")) > -(1 << 63) else "(-9223372036854775807L-1)", str(int(mv("u")) % (1 << 64))))
    L[-1] = L[-1].replace("(-9223372036854775807L-1)L", "(-9223372036854775807L-1)")
    lines, tmp = [], [0]
    rhs = ref_code(e, tmp, lines)
    if asg != "=":
        def newz():
            tmp[0] += 1; n = "tz%d" % tmp[0]; lines.append("mpz_t %s; mpz_init (%s);" % (n, n)); return n
        def newq():
            tmp[0] += 1; n = "tq%d" % tmp[0]; lines.append("mpq_t %s; mpq_init (%s);" % (n, n)); return n
        def toz(x):
            if x[0] == "z": return x[1]
            n = newz(); lines.append("mpz_set_%s (%s, %s);" % ("si" if x[0] == "l" else "ui", n, x[1])); return n
        def toq(x):
            if x[0] == "q": return x[1]
            n = newq(); lines.append("mpq_set_z (%s, %s);" % (n, toz(x))); return n
        rhs = ref_bin_code(asg[:-1], (kind, "I" + tgt), rhs, tmp, lines, newz, newq, toz, toq)
    L += lines
    def ref(nm):
        return "O" + rep.get(nm, nm)
    L.append("w (%s, %s, %s, %s, %s, %s, Il, Iu);" % tuple(ref(x) for x in "abcqrs"))
    if kind == "z":
        if rhs[0] != "z":
            L.append("mpz_t rz; mpz_init (rz); mpz_set_%s (rz, %s);" % ("si" if rhs[0] == "l" else "ui", rhs[1])); rhs = ("z", "rz")
        L.append('if (mpz_cmp (%s.get_mpz_t (), %s) != 0) { gmp_printf ("REPLAY-FAIL target %%Zd reference %%Zd\\n", %s.get_mpz_t (), %s); return 1; }' % (ref(tgt), rhs[1], ref(tgt), rhs[1]))
    else:
        if rhs[0] != "q":
            if rhs[0] != "z":
                L.append("mpz_t rz; mpz_init (rz); mpz_set_%s (rz, %s);" % ("si" if rhs[0] == "l" else "ui", rhs[1])); rhs = ("z", "rz")
            L.append("mpq_t rq; mpq_init (rq); mpq_set_z (rq, %s);" % rhs[1]); rhs = ("q", "rq")
        L.append('if (!mpq_equal (%s.get_mpq_t (), %s) || mpz_cmp (mpq_denref (%s.get_mpq_t ()), mpq_denref (%s)) != 0) { gmp_printf ("REPLAY-FAIL target %%Qd reference %%Qd\\n", %s.get_mpq_t (), %s); return 1; }' % (ref(tgt), rhs[1], ref(tgt), rhs[1], ref(tgt), rhs[1]))
    for z in "abc":
        if rep.get(z, z) != rep.get(tgt, tgt):
            L.append('if (mpz_cmp (%s.get_mpz_t (), I%s) != 0) { puts ("REPLAY-FAIL operand %s changed"); return 1; }' % (ref(z), z, z))
    for qn in "qrs":
        if rep.get(qn, qn) != rep.get(tgt, tgt):
            L.append('if (!mpq_equal (%s.get_mpq_t (), I%s)) { puts ("REPLAY-FAIL operand %s changed"); return 1; }' % (ref(qn), qn, qn))
    L.append('puts ("REPLAY-OK"); return 0; }')
    return "\n".join(L) + "\n"


def cxxgen_tuplify(e):
    return tuple(cxxgen_tuplify(x) if isinstance(x, (list, tuple)) else x for x in e)


def run(ctx, a):
    t0 = time.time()
    tier = ctx.tier
    progs = cxxgen.programs(tier)
    wd = os.path.join(ctx.scratch, "c20"); os.makedirs(wd, exist_ok=True)
    hdr = os.path.join(ctx.snap, "mpirxx.h")
    if not os.path.exists(hdr):
        raise vf.Infra("mpirxx.h not in the tree")
    src = os.path.join(wd, "wrappers.cc")
    open(src, "w").write('#include "mpirxx.h"\n' + "\n".join(cxxgen.wrapper(i, p) for i, p in enumerate(progs)) + "\n")
    ll = os.path.join(wd, "wrappers.ll")
    inc = ["-I" + ctx.overlay("native"), "-I" + ctx.snap]
    rc, so, se = vf.sh(CLANG + inc + [src, "-o", ll], timeout=600)
    if rc:
        raise vf.Infra("clang failed on the generated wrappers: " + se[-2000:])
    pj = os.path.join(wd, "progs.json"); json.dump(progs, open(pj, "w"))
    only = re.compile(a.only) if a.only else None
    tmo = 8000 if tier == "quick" else 60000
    n = len(progs)
    nchunk = max(1, min(4 * vf.NCPU, n))
    bounds = [(i * n // nchunk, (i + 1) * n // nchunk) for i in range(nchunk)]
    def work(b):
        out = os.path.join(wd, "out_%d.json" % b[0])
        try:
            rc, so, se = vf.sh(["python3-vt", os.path.join(vf.VERIF, "lib", "ir2smt.py"), ll, pj, out, str(b[0]), str(b[1]), str(tmo)], timeout=3000, mem_gb=6)
        except subprocess.TimeoutExpired:
            return [{"program": i, "alias": "-", "status": "unknown", "detail": "encoder process timeout"} for i in range(*b)]
        if rc or not os.path.exists(out):
            return [{"program": i, "alias": "-", "status": "error", "detail": "encoder process failed rc=%s %s" % (rc, se[-300:])} for i in range(*b)]
        return json.load(open(out))
    vf.log("C20 tier=%s: %d expression programs, IR %d lines, %d encoder processes" % (tier, n, len(open(ll).read().split("\n")), nchunk))
    res = []
    with ThreadPoolExecutor(max_workers=vf.NCPU) as ex:
        for r in ex.map(work, bounds):
            res += r
    if only:
        res = [r for r in res if only.search("%s" % r.get("stmt", ""))]
    known, fixed = vf.load_known()
    known = [k for k in known if k["property"] == "C20"]
    lib = os.path.join(vf.REPO, ".libs", "libmpir.a")
    if not os.path.exists(lib):
        lib = "/repo/.libs/libmpir.a"       # (seed runs use a source-only copy of the tree; the C library is the reference side of the replay)
    nviol, newviol, spurious, replays = 0, [], 0, 0
    for r in res:
        if r["status"] != "sat":
            continue
        i = r["program"]
        rd = os.path.join(vf.VERIF, "replays", "C20", "w%d_%s" % (i, re.sub(r"[^a-z=]", "_", r["alias"])))
        os.makedirs(rd, exist_ok=True)
        rs = os.path.join(rd, "replay.cc")
        try:
            open(rs, "w").write(replay_source(progs[i], r["alias"], r.get("model") or {}))
        except Exception as e:
            r["status"] = "unconfirmed"; r["detail"] += " ; replay generation failed: %r" % e; continue
        exe = os.path.join(wd, "replay_%d.exe" % i)
        rc, so, se = vf.sh(["g++", "-O1", "-w", rs] + inc + [lib, "-o", exe], timeout=300)
        if rc:
            r["status"] = "unconfirmed"; r["detail"] += " ; replay compile failed: " + se[-300:]; continue
        try:
            rc, so, se = vf.sh([exe], timeout=60)
        except subprocess.TimeoutExpired:
            rc, so = 124, ""
        replays += 1
        r["replay"] = rs
        r["replay_out"] = (so + se)[-300:]
        if rc == 0:
            r["status"] = "uf-spurious"; spurious += 1
        elif rc == 3:
            r["status"] = "uf-spurious"; spurious += 1; r["detail"] += " ; model divides by zero after canonicalisation"
        else:
            r["status"] = "violation"; nviol += 1
            open(os.path.join(rd, "replay.sh"), "w").write("#!/bin/sh\n# %s  aliasing %s\ng++ -O1 -w %s %s %s -o /tmp/c20_replay && /tmp/c20_replay\n" % (r.get("stmt"), r["alias"], rs, " ".join(inc), lib))
            k = [e for e in known if re.fullmatch(e["match"], "%s@%s" % (r.get("stmt", "").replace(" ", ""), r["alias"]))]
            if k:
                vf.log("KNOWN-FINDING: property=C20 %s (statement %s, aliasing %s)" % (k[0]["what"], r.get("stmt"), r["alias"]))
            else:
                newviol.append(r)
    from collections import Counter
    cnt = Counter(r["status"] for r in res)
    unsup = Counter(r.get("detail", "")[:80] for r in res if r["status"] == "unsupported")
    nprog_ok = len(set(r["program"] for r in res if r["status"] == "unsat"))
    samples = [{"statement": r.get("stmt"), "aliasing": r["alias"], "status": r["status"], "paths": r.get("paths"), "solver_queries": r.get("queries"), "z3_s": r.get("z3_s")} for r in res[:: max(1, len(res) // 12)]][:14]
    cov = {
        "programs": len(progs), "disagreements_checked": replays,
        "samples": samples,
        "evaluations": len(res), "distinct_nontrivial": cnt.get("unsat", 0),
        "rule": "one evaluation = one (expression statement, aliasing of its class-object operands) pair executed symbolically from clang's IR; non-trivial = every path reached a return and z3 answered unsat for 'path condition and not (target == reference and other objects unchanged and temporaries cleared)'",
        "queries_by_status": dict(cnt), "programs_fully_discharged": nprog_ok,
        "not_encoded": dict(unsup), "uf_spurious": spurious,
        "inconclusive": [{"statement": r.get("stmt"), "aliasing": r["alias"], "detail": r.get("detail")} for r in res if r["status"] in ("unknown", "uf-spurious")][:40],
        "solver": "z3 %s (python API, QF_UFBV), %d ms per query" % (subprocess.run(["python3-vt", "-c", "import z3;print(z3.get_version_string())"], stdout=subprocess.PIPE, text=True).stdout.strip(), tmo),
        "solver_seconds_total": round(sum(r.get("z3_s", 0) for r in res), 1),
        "solver_queries": sum(r.get("queries", 0) or 0 for r in res),
        "functions_encoded": ["mpirxx.h: __gmp_expr<...>::eval specialisations, __gmp_set_expr, __gmp_binary_* / __gmp_unary_* function objects, compound assignment operators, as instantiated by the generated statements"],
        "ir_lines": len(open(ll).read().split("\n")), "exhaustive": False,
        "explanation": "expression programs are enumerated (finite list from lib/cxxgen.py, depth <= 2); operand values (|v| < 2^128, long/unsigned long all 2^64 values) and path choices are decided by z3; aliasings of the mentioned objects are enumerated completely",
    }
    ev = {"property_id": "C20", "tier": tier, "seed": ctx.seed, "level": LEVEL, "coverage": cov, "assumptions": ASSUMPTIONS, "wall_s": round(time.time() - t0, 1), "violations": nviol}
    evdir = os.environ.get("VERIF_EVIDENCE_DIR") or os.path.join(vf.VERIF, "evidence")
    os.makedirs(evdir, exist_ok=True)
    json.dump(ev, open(os.path.join(evdir, "C20.json"), "w"), indent=1)
    vf.log("C20 tier=%s: %d programs, %d (program, aliasing) queries: %s ; replays %d ; wall %.0fs" % (tier, len(progs), len(res), dict(cnt), replays, time.time() - t0))
    for r in newviol:
        vf.log("VIOLATION property=C20 replay=%s" % r["replay"])
        vf.log("   statement `%s` aliasing %s: %s ; native: %s" % (r.get("stmt"), r["alias"], r.get("detail"), r.get("replay_out", "").strip()[-200:]))
    if newviol:
        return 1
    errs = [r for r in res if r["status"] in ("error", "unconfirmed")]
    if errs or cnt.get("unsat", 0) == 0:
        for r in errs[:10]:
            vf.log("BROKEN-CHECK program=%s %s %s" % (r["program"], r["status"], r.get("detail", "")[:400]))
        return 2
    return 0


ASSUMPTIONS = [
 "clang++-14 -O1 lowering of mpirxx.h is taken as the meaning of the C++ source (the encoder executes clang's IR, not g++'s); native replays use g++",
 "each __mpz_struct is a 256-bit two's-complement value; inputs satisfy |v| < 2^128, mpq inputs have a positive denominator; long / unsigned long operands range over all 2^64 values",
 "C-level semantics of the called functions: mpz add/sub/neg/abs/com/and/ior/xor/set/set_ui/set_si/cmp/fits/get are exact; mpz_mul (and mul_si/mul_ui/addmul/submul) is a commutative uninterpreted function; truncating division is sign-symmetric over an unsigned core that is exact when both magnitudes fit 64 bits, zero/identity when the dividend is smaller, and uninterpreted otherwise; mpq add/sub/mul/div/inv are uninterpreted functions of numerators and denominators (add and mul commutative); a counterexample that depends on an uninterpreted function only counts if it reproduces natively, otherwise the query is reported as inconclusive (uf-spurious)",
 "every C function reads its sources before writing its destination (the aliasing contract C05 establishes)",
 "divisors are assumed non-zero (division by zero raises SIGFPE in both formulations)",
 "stores to _mp_size (inline mpz_neg/mpz_abs) may only change the sign; this is checked by the solver per path, a violation marks the statement 'not encoded'",
 "native replays link /repo/.libs/libmpir.a (the C functions are the reference, the header under test is taken from the snapshot)",
]
MANIFEST = {
 "engine": "ir2smt",
 "text": "Translation validation of C++ expression statements: for every generated statement `target op= expression` over mpz_class / mpq_class objects and long / unsigned long operands (trees of depth <= 2, target possibly occurring inside the tree, compound assignments) and for every aliasing of the objects it mentions, clang's LLVM IR of the real mpirxx.h instantiation is executed symbolically and z3 decides, for all operand values, that the final target equals the tree evaluated node by node with the C functions, that no other object changed and that every temporary is initialised once and cleared once.",
 "note": "Bounds: 529 statements (quick) from lib/cxxgen.py, operators + - * / % (and & | ^ ~ in thorough), unary -, abs; mpz inputs |v| < 2^128; z3 timeout 8 s per query in quick (timeouts and uf-spurious models are listed as inconclusive, unsupported IR as not encoded). Outside: mpf_class, double operands, comparisons/shifts, constructors from strings, stream I/O, get_str (iostream/std::string internals cannot be encoded), statements not in the generated list.",
 "technique": "symbolic execution of clang LLVM IR of the real header by an own encoder (lib/ir2smt.py), verdict per (statement, aliasing) by z3 over bit-vectors with uninterpreted functions for multiplication and rational arithmetic; counterexamples replayed natively with g++ against the C functions",
}
