from vf import Query, G
LEVEL = "model_checking"
BASE = ["memory.c", "mpz/realloc.c", "assert.c", "mp_bpl.c", "errno.c", "tal-reent.c", "mpz/clear.c", "mpn/mp_bases.c", "mp_clz_tab.c"]
LIN = [G + x + ".c" for x in ("cmp", "copyi", "copyd", "zero", "lshift", "rshift", "add_1", "sub_1", "add_n", "sub_n", "add", "sub")]
PR = ["printf/%s.c" % x for x in ("doprnt", "doprnti", "doprntf", "snprintf", "vsnprintf", "snprntffuns", "sprintf", "vsprintf", "sprintffuns", "asprintf", "vasprintf", "asprntffuns")] + \
     ["mpq/get_str.c", "mpf/get_str.c", G + "get_str.c", G + "divrem_1.c", G + "mul_1.c"]

def queries(ctx):
    quick = ctx.tier == "quick"
    qs = []
    def add(name, defs, funcs, timeout=600, **kw):
        qs.append(Query(name, "C18_printf.c", PR + LIN + BASE, defs, unwind=24, hunwind=80, funcs=funcs, timeout=timeout if quick else 1800, **kw))
    flagsets = ["", "-", "+", " ", "#", "0", "-0", "+ ", "#0", "+0"] if quick else ["", "-", "+", " ", "#", "0", "-0", "+ ", "#0", "+0", "-+", "- ", "-#", " 0", "+#", " #", "-+ #0", "+ 0", "#-0", " #0"]
    convs = [("d", 10), ("o", 8), ("x", 16), ("X", -16)] + ([] if quick else [("i", 10)])
    F = ["printf/doprnt.c:__gmp_doprnt", "printf/doprnti.c:__gmp_doprnt_integer", "printf/snprntffuns.c", "printf/sprintffuns.c", "printf/asprntffuns.c"]
    ST = ["mpz_get_str -> contract stub returning a fresh exactly-sized block with the concrete digit string of the query (digit generation is C06)", "__ctype_b_loc -> ASCII classification table"]
    def fam(tag, fmt, conv, base, nstar, fn, bsize, vals):
        for sgn, dig in vals:
            if sgn < 0 and conv not in "di": continue
            nm = "%s.%s.sgn%d.dig%s.fn%d" % (tag, fmt.replace("%", "P").replace(" ", "S").replace("#", "H").replace("*", "A").replace(".", "p").replace("-", "m").replace("+", "q"), sgn, dig, fn)
            add(nm, {"FMT": '"%s"' % fmt, "SGN": "(%d)" % sgn, "NSTAR": nstar, "FN": fn, "BSIZE": "(%d)" % bsize, "CONVBASE": "(%d)" % base, "NDIG": len(dig), "DIGITS": '"%s"' % dig}, F, stubs=ST)
    vals = [(0, "0"), (1, "42"), (-1, "42")] + ([] if quick else [(1, "7"), (1, "907"), (-1, "7")])
    for fl in flagsets:
        for conv, base in convs:
            # combinations C gives no meaning to are not generated: '#' with d/i, '+' and ' ' with o/x/X
            if ("#" in fl and conv in "di") or (("+" in fl or " " in fl) and conv in "oxX"):
                continue
            dg = [(s, "2a" if (d == "42" and abs(base) == 16) else d) for s, d in vals]
            if base == -16: dg = [(s, d.upper()) for s, d in dg]
            if not ("+" in fl and " " in fl) and not ("0" in fl and "-" in fl):      # K4 / K1 on every path
                dgs = [x for x in dg if not ("0" in fl and x[0] == 0)]                 # '0' flag, value 0: K2 or K3 on every path
                fam("star", "%%%s*.*Z%s" % (fl, conv), conv, base, 2, 0, 40, dgs)         # width and precision both symbolic
            if fl in ("", "-", "0", "#0", "+0"):
                fam("starw", "%%%s*Z%s" % (fl, conv), conv, base, 1, 0, 40, dg)       # no precision
    for fmt, conv, base in (("%6Zd", "d", 10), ("%-6.3Zd", "d", 10), ("%06Zd", "d", 10), ("%.0Zd", "d", 10), ("%12.10Zx", "x", 16), ("%#.0Zo", "o", 8), ("%+.Zd", "d", 10), ("%#8ZX", "X", -16)):
        dg = [(s, "2a" if (d == "42" and abs(base) == 16) else d) for s, d in vals]
        if base == -16: dg = [(s, d.upper()) for s, d in dg]
        if fmt == "%+.Zd": dg = [x for x in dg if x[0] != 0]     # K7
        fam("lit", fmt, conv, base, 0, 0, 40, dg)
        fam("litsz", fmt, conv, base, 0, 0, -1, dg[:2])                               # gmp_snprintf, every buffer size
        fam("lit", fmt, conv, base, 0, 2, 0, dg[1:2])                               # gmp_asprintf
    fam("starsz", "%*.*Zd", "d", 10, 2, 0, -1, vals[:3])
    # gmp_asprintf buffer growth at and around its initial capacity (256 bytes)
    for w in (255, 256, 257):
        qs.append(Query("asprintf_grow.w%d" % w, "C18_printf.c", PR + LIN + BASE, {"FMT": '"%%%dZd"' % w, "SGN": 1, "NSTAR": 0, "FN": 2, "BSIZE": 0, "CONVBASE": 10, "NDIG": 2, "DIGITS": '"42"', "MAXO": 270},
                        unwind=24, hunwind=290, funcs=F, timeout=900, stubs=ST))
    # pinned inputs of the known findings (each query assumes exactly its class mask, see harness): must FAIL until the library is fixed
    def kf(k, mask, fmt, conv, base, nstar, sgn, dig):
        add("kf.K%d.%s.sgn%d" % (k, fmt.replace("%", "P").replace(" ", "S").replace("#", "H").replace("*", "A").replace(".", "p").replace("-", "m").replace("+", "q"), sgn),
            {"FMT": '"%s"' % fmt, "SGN": "(%d)" % sgn, "NSTAR": nstar, "FN": 0, "BSIZE": "(40)", "CONVBASE": "(%d)" % base, "NDIG": len(dig), "DIGITS": '"%s"' % dig, "EXCL": 0, "KMASK": mask}, F, stubs=ST)
    kf(1, 1, "%-0*Zd", "d", 10, 1, 1, "42")
    kf(1, 1, "%0*Zd", "d", 10, 1, 1, "42")
    kf(2, 2, "%0*.*Zd", "d", 10, 2, 1, "42")
    kf(3, 4, "%*.*Zd", "d", 10, 2, 0, "0")
    kf(4, 8, "%+ *.*Zd", "d", 10, 2, 1, "42")
    kf(5, 16, "%#*.*Zo", "o", 8, 2, 1, "42")
    kf(6, 32, "%#*.*Zx", "x", 16, 2, 0, "0")
    kf(7, 64, "%+.Zd", "d", 10, 0, 0, "0")
    return qs

ASSUMPTIONS = [
 "format strings are concrete per query (flags x conversion enumerated; width and precision given as '*' arguments are symbolic ints in [-9,9] / [-2,9], a few literal widths/precisions exercise the digit parser); the gmp_snprintf buffer size is symbolic in the *sz families",
 "mpz_get_str under __gmp_doprnt is a contract stub that returns a fresh, exactly sized block holding the query's concrete digit string (the layout layer never inspects digit values; digit generation is C06); it asserts that it is called once, with a NULL buffer and the base the conversion implies",
 "oracle: transcription of C11 7.21.6.1 for d/i/o/x/X; in every native replay the oracle string is first compared with the C library's own snprintf of the equal long (a disagreement stops the replay as a broken check, not as a violation)",
 "combinations to which C gives no meaning are not generated ('#' with d/i, '+'/' ' with o/x/X); gmp_sprintf is not driven (CBMC rejects the function-pointer cast of its funs table), gmp_snprintf with a large buffer exercises the same layout code",
 "inputs that fall into a recorded known-finding class (K1-K7, known_findings.txt) are assumed away in the main families and pinned by the kf.* queries",
 "glibc ctype classification is modelled by an ASCII table",
]
MANIFEST = {
 "text": "Bounded model checking of the real gmp_snprintf/gmp_asprintf -> __gmp_doprnt -> __gmp_doprnt_integer path for %Zd/%Zi/%Zo/%Zx/%ZX: for every enumerated flag set and conversion, every '*' width and precision in the stated range and every buffer size, the output is byte-identical to the C formatting of the equal long, gmp_snprintf never writes beyond size and returns the full length, gmp_asprintf returns a block of exactly length+1 bytes (recording allocator), including outputs that land exactly on the 256-byte growth boundary; no block is leaked.",
 "note": "Seven classes of genuine deviation from C printf on the pinned tree are recorded as known findings K1-K7 (each pinned to a concrete format/argument query; any other deviation is still reported). Bounds: 10 flag sets (20 thorough) x 4-5 conversions, widths <= 9 (literal up to 257 for asprintf), precisions <= 9, values 0 / 2-digit positive / negative. Outside: %Q, %N, %M, %F conversions, standard conversions mixed into the format, gmp_sscanf/gmp_fscanf (not yet harnessed), gmp_fprintf fault return, locale, obstack output.",
 "technique": "bounded symbolic execution of the real C sources with CBMC (SAT), concrete format per query x symbolic '*' arguments and buffer size, reference C-printf oracle cross-checked against libc in native replay, recording allocator",
}
