from vf import Query
LEVEL = "model_checking"
def queries(ctx):
    qs = []
    K = 4 if ctx.tier == "quick" else 8
    for op, fn in ((0, "add_n"), (1, "sub_n")):
        for n in range(1, K + 1):
            for al in range(4):
                qs.append(Query("mpn_%s.n%d.alias%d" % (fn, n, al), "C03_mpn_aors_n.c", ["mpn/generic/%s.c" % fn],
                                {"N": n, "ALIAS": al, "OP": op}, unwind=n + 2, funcs=["mpn/generic/%s.c:mpn_%s" % (fn, fn)], timeout=120))
    return qs
MANIFEST = {
 "text": "Bounded model checking of the real mpn/mpz add/sub/neg/shift/copy sources: for every enumerated concrete shape (length, alias pattern, sign pattern, allocation) the solver decides the assertion 'result == reference' over all 2^64 values of every limb; a counterexample is replayed natively against the real code before it is reported.",
 "note": "Bounds: see evidence (lengths up to 4 quick / 8 thorough). Trusted: CBMC C semantics, the inline-asm translation (validated each run), the reference oracles in harness/vh.h.",
}
