from vf import Query, MPZ_BASE
LEVEL = "model_checking"
G = "mpn/generic/"

def queries(ctx):
    quick = ctx.tier == "quick"
    qs = []
    def add(name, h, units, defs, unwind, funcs, timeout=180, **kw):
        qs.append(Query(name, h, units, defs, unwind=unwind, funcs=funcs, timeout=timeout, **kw))
    K = 4 if quick else 8
    for op, fn in ((0, "add_n"), (1, "sub_n")):
        for n in range(1, K + 1):
            for al in range(4):
                add("mpn_%s.n%d.alias%d" % (fn, n, al), "C03_mpn_aors_n.c", [G + fn + ".c"], {"N": n, "ALIAS": al, "OP": op}, n + 2, [G + "%s.c:mpn_%s" % (fn, fn)])
    K = 4 if quick else 6
    for op, fn in ((0, "add"), (1, "sub")):
        for un in range(1, K + 1):
            for vn in range(1, un + 1):
                for al in (0, 1) + ((2,) if un == vn else ()):
                    add("mpn_%s.un%d.vn%d.alias%d" % (fn, un, vn, al), "C03_mpn_aors.c", [G + fn + ".c", G + fn + "_n.c"],
                        {"UN": un, "VN": vn, "ALIAS": al, "OP": op}, un + 2, [G + "%s.c:mpn_%s" % (fn, fn), "gmp-h.in:__GMPN_AORS"])
    K = 4 if quick else 8
    one = [(0, "add_1", [G + "add_1.c"]), (1, "sub_1", [G + "sub_1.c"]), (2, "neg", [G + "neg_n.c", G + "com_n.c"]), (3, "com_n", [G + "com_n.c"]),
           (4, "copyi", [G + "copyi.c"]), (5, "copyd", [G + "copyd.c"]), (6, "zero", [G + "zero.c"]), (7, "cmp", [G + "cmp.c"]), (8, "zero_p", [G + "zero_p.c"])]
    for fn, nm, units in one:
        for n in range(1, K + 1):
            als = (0, 1) if fn <= 3 else (0, 1, 2) if fn in (4, 5) else (0,)
            for al in als:
                add("mpn_%s.n%d.alias%d" % (nm, n, al), "C03_mpn_1.c", units, {"N": n, "FN": fn, "ALIAS": al}, 2 * n + 6, [units[0] + ":mpn_" + nm])
    K = 4 if quick else 6
    for d, nm in ((0, "lshift"), (1, "rshift")):
        for n in range(1, K + 1):
            offs = (99, 0, 1, 2) if d == 0 else (99, 0, -1, -2)
            for off in offs:
                add("mpn_%s.n%d.off%s" % (nm, n, off), "C03_mpn_shift.c", [G + nm + ".c"], {"N": n, "DIR": d, "OFF": "(%d)" % off}, n + 10, [G + nm + ".c:mpn_" + nm])
    K = 2 if quick else 4
    for fn, nm in ((0, "addadd_n"), (1, "addsub_n"), (2, "subadd_n"), (3, "sumdiff_n"), (4, "nsumdiff_n")):
        for n in range(1, K + 1):
            als = range(8) if fn <= 2 else range(6)
            for al in als:
                units = [G + nm + ".c", G + "add_n.c", G + "sub_n.c", G + "mul_1.c", G + "neg_n.c", G + "com_n.c", "memory.c", G + "copyi.c"]
                add("mpn_%s.n%d.alias%d" % (nm, n, al), "C03_mpn_multi.c", units, {"N": n, "FN": fn, "ALIAS": al}, n + 2, [G + nm + ".c:mpn_" + nm])
    # mpz layer
    K = 2 if quick else 4
    au = [G + "add_n.c", G + "sub_n.c", G + "cmp.c", G + "add.c", G + "sub.c", G + "add_1.c", G + "sub_1.c", G + "copyi.c"] + MPZ_BASE
    for op, nm in ((0, "add"), (1, "sub")):
        for su in range(-K, K + 1):
            for sv in range(-K, K + 1):
                for al in range(5):
                    if al >= 3 and sv != su:
                        continue
                    need = max(abs(su), abs(sv)) + 1
                    aws = sorted(set([1, need])) if al in (0, 3) else [0]
                    if not quick and al in (0, 3):
                        aws = sorted(set([1, max(1, need - 1), need]))
                    for aw in aws:
                        add("mpz_%s.su%d.sv%d.alias%d.aw%d" % (nm, su, sv, al, aw), "C03_mpz_aors.c", ["mpz/%s.c" % nm] + au,
                            {"SU": "(%d)" % su, "SV": "(%d)" % sv, "ALIAS": al, "AW": max(1, aw), "OP": op}, max(abs(su), abs(sv)) + 4,
                            ["mpz/aors.h:mpz_" + nm], timeout=300)
    K = 2 if quick else 4
    for fn, nm in ((0, "add_ui"), (1, "sub_ui"), (2, "ui_sub")):
        for su in range(-K, K + 1):
            for al in (0, 1):
                for aw in (sorted(set([1, abs(su) + 1])) if al == 0 else [0]):
                    add("mpz_%s.su%d.alias%d.aw%d" % (nm, su, al, aw), "C03_mpz_ui.c", ["mpz/%s.c" % nm, "mpz/add.c", "mpz/sub.c"] + au,
                        {"SU": "(%d)" % su, "FN": fn, "ALIAS": al, "AW": max(1, aw)}, abs(su) + 5, ["mpz/%s.c:mpz_%s" % (nm, nm)])
    K = 3 if quick else 4
    for fn, nm, un in ((0, "neg", ["mpz/neg.c", "mpz/set.c"]), (1, "abs", ["mpz/abs.c", "mpz/set.c"]), (2, "set", ["mpz/set.c"]), (4, "mul_2exp", ["mpz/mul_2exp.c", G + "lshift.c", G + "copyd.c", G + "zero.c"])):
        for su in range(-K, K + 1):
            for al in (0, 1):
                for cnt in ((0, 1, 63, 64, 65, 127, 128, 191) if fn == 4 else (0,)):
                    lc = cnt // 64
                    need = abs(su) + lc + 1
                    for aw in (sorted(set([1, need])) if al == 0 else [0]):
                        add("mpz_%s.su%d.cnt%d.alias%d.aw%d" % (nm, su, cnt, al, aw), "C03_mpz_misc.c", un + au, {"SU": "(%d)" % su, "FN": fn, "ALIAS": al, "AW": max(1, aw), "CNT": cnt},
                            abs(su) + 6 + lc, ["mpz/%s.c:mpz_%s" % (nm, nm)])
    for su in range(-2, 3):
        for sw in range(-2, 3):
            add("mpz_swap.su%d.sw%d" % (su, sw), "C03_mpz_misc.c", ["mpz/swap.c"] + au, {"SU": "(%d)" % su, "SW": "(%d)" % sw, "FN": 3, "ALIAS": 0, "AW": max(1, abs(sw))}, 6, ["mpz/swap.c:mpz_swap"])
    return qs

MANIFEST = {
 "text": "Bounded model checking of the real mpn/mpz add/sub/neg/shift/copy sources: for every enumerated concrete shape (length, alias/overlap pattern, sign pattern, destination allocation) the solver decides 'result == reference' over all 2^64 values of every limb, the symbolic shift count and the symbolic ui operand; a counterexample is replayed natively against the real code before it is reported.",
 "note": "Bounds: mpn lengths <= 4 (quick) / 6-8 (thorough); mpz operand sizes <= 2 (quick) / 4 (thorough) limbs, every sign pair, alias pattern and minimal destination allocation. Outside: longer operands; the four *_err{1,2}_n assembly units are covered under C14. Trusted: CBMC C semantics, inline-asm translation (validated each run), two's-complement reference oracles in harness/vh.h.",
}
