from vf import Query, G
LEVEL = "model_checking"
BASE = ["memory.c", "mpz/realloc.c", "assert.c", "mp_bpl.c", "tal-reent.c"]
LIN = [G + x + ".c" for x in ("cmp", "copyi", "copyd", "zero", "lshift", "rshift", "add_1", "sub_1", "add_n", "sub_n")]
ST = ["gmp_randstate_t function table -> stub generator returning arbitrary bits under the randget contract (BITS_TO_LIMBS(nbits) limbs, high bits of the top limb zero)"]

def queries(ctx):
    quick = ctx.tier == "quick"
    qs = []
    def add(name, h, units, defs, unwind, funcs, timeout=300, **kw):
        kw.setdefault("stubs", ST)
        qs.append(Query(name, h, units, defs, unwind=unwind, funcs=funcs, timeout=timeout if quick else 1200, **kw))
    R = "C19_range.c"
    bitsl = (0, 1, 63, 64, 65, 128, 130) if quick else (0, 1, 2, 31, 32, 63, 64, 65, 100, 127, 128, 129, 130, 192, 200)
    for nb in bitsl:
        for ds in (0, -2):
            add("mpz_urandomb.n%d.ds%d" % (nb, ds), R, ["mpz/urandomb.c"] + LIN + BASE, {"FN": 0, "NBITS": nb, "DS": "(%d)" % ds}, 10, ["mpz/urandomb.c:mpz_urandomb"])
        add("mpn_urandomb.n%d" % nb, R, [G + "urandomb.c"] + LIN + BASE, {"FN": 2, "NBITS": nb}, 10, [G + "urandomb.c:mpn_urandomb"])
        add("gmp_urandomb_ui.n%d" % nb, R, ["randbui.c"] + LIN + BASE, {"FN": 4, "NBITS": nb}, 10, ["randbui.c:gmp_urandomb_ui"])
    K = 2 if quick else 3
    for sn in range(-K, K + 1):
        for al in (0, 1):
            for ds in ((0, 3) if al == 0 else (0,)):
                if sn == 0 and (al or ds): continue
                add("mpz_urandomm.sn%d.alias%d.ds%d" % (sn, al, ds), R, ["mpz/urandomm.c"] + LIN + BASE, {"FN": 1, "SN": "(%d)" % sn, "ALIAS": al, "DS": ds}, 10, ["mpz/urandomm.c:mpz_urandomm"], timeout=600)
    for sn in range(1, K + 2):
        add("mpn_urandomm.sn%d" % sn, R, [G + "urandomm.c"] + LIN + BASE, {"FN": 3, "SN": sn}, 10, [G + "urandomm.c:mpn_urandomm"], timeout=600)
        add("mpn_randomb.sn%d" % sn, R, [G + "randomb.c"] + LIN + BASE, {"FN": 7, "SN": sn}, 10, [G + "randomb.c:mpn_randomb"])
    for zn in (0, 1):
        add("gmp_urandomm_ui.zn%d" % zn, R, ["randmui.c"] + LIN + BASE, {"FN": 5, "ZN": zn, "MAXCALLS": 4}, 8, ["randmui.c:gmp_urandomm_ui"], timeout=900)
    for prec in (2, 3):
        for nb in (0, 1, 64, 65, 128, 129, 192, 300):
            add("mpf_urandomb.prec%d.n%d" % (prec, nb), R, ["mpf/urandomb.c"] + LIN + BASE, {"FN": 9, "FPREC": prec, "FS0": prec + 1, "NBITS": nb}, 10, ["mpf/urandomb.c:mpf_urandomb"])
    MUL = [G + x + ".c" for x in ("mul_1", "addmul_1", "mul_basecase", "mul", "mul_n", "sqr_basecase", "add", "add_n", "sub_n")]
    lcu = ["randiset.c", "mpz/init.c", "mpz/init2.c", "mpz/iset.c", "mpz/clear.c", "mpz/cfdiv_r_2exp.c", "mpz/set.c", "mpz/set_ui.c", G + "com_n.c", G + "neg_n.c", "errno.c"] + MUL + LIN[:8] + BASE
    shapes = [(32, 1, nb) for nb in (1, 16, 17, 40, 64, 70, 130)] + [(40, 1, nb) for nb in (20, 50, 64, 70, 100)] + [(64, 1, nb) for nb in (32, 33, 64, 65, 100)] + [(100, 2, nb) for nb in (50, 64, 70, 128, 130)] + [(128, 2, nb) for nb in (64, 65, 130)]
    if not quick:
        shapes += [(56, 1, nb) for nb in (28, 60, 64, 70, 120)] + [(36, 1, nb) for nb in (18, 64, 66, 70, 100)] + [(100, 1, 70), (128, 1, 130), (200, 4, 130), (200, 4, 250)]
    for m, an, nb in shapes:
        for fn in ((0, 1) if (nb == 70 or (nb == 130 and an == 1)) else (0,)):
            add("randget_lc.m%d.an%d.n%d.fn%d" % (m, an, nb, fn), "C19_lc.c", lcu, {"M2EXP": m, "AN": an, "NBITS": nb, "FN": fn}, 12, ["randlc2x.c:randget_lc", "randlc2x.c:lc", "randlc2x.c:randiset_lc", "randiset.c:gmp_randinit_set"],
                variant="uf", domain="D-UF", hunwind=max(nb, 64) + 8, stubs=[], timeout=600)
    return qs

ASSUMPTIONS = [
 "range family: the generator behind gmp_randstate_t is replaced through the real function table by a stub whose randget returns arbitrary bits under the randget contract; rejection loops are explored up to MAXCALLS (3; 4 for gmp_urandomm_ui) generator calls, longer rejection runs are outside the claim",
 "LC family: randlc2x.c is #included into the harness so that randget_lc/lc/randiset_lc run as they are; state (seed, multiplier, addend) symbolic, modulus exponent (even values from the shipped scheme table) and request length concrete; limb products are shared uninterpreted functions (D-UF)",
 "not covered: seeding procedures (gmp_randseed*, MT seeding), the Mersenne Twister generator, statistical uniformity (only its mechanism for the LC generator - the low half of each X is discarded - is decided)",
]
MANIFEST = {
 "text": "Bounded model checking of the real random-number sources. Range: mpz_urandomb, mpn_urandomb, gmp_urandomb_ui (< 2^n), mpz_urandomm, mpn_urandomm, gmp_urandomm_ui (in [0,n-1], DIVIDE_BY_ZERO for n = 0, rop==n alias, stale destination limbs), mpn_randomb (exactly n limbs, top limb non-zero), mpf_urandomb (in [0,1), at most prec+1 limbs) for every possible generator output (the generator is a stub returning arbitrary bits) and all modulus values of the enumerated sizes. LC generator: randget_lc/lc against the recurrence X <- aX+c mod 2^m with the output equal to the concatenated high halves, untouched memory beyond the request, masked top bits, final state, and equality of the output of a gmp_randinit_set copy, for all seeds, multipliers and addends.",
 "note": "Bounds: bit counts {0,1,63,64,65,128,130} quick (15 values thorough), moduli <= 2 limbs quick / 3 thorough (mpn_urandomm up to 3/4), LC moduli 2^32, 2^40, 2^64, 2^100, 2^128 with requests up to 130 bits (more in thorough). Outside: Mersenne Twister, seeding, mpz_rrandomb/mpn_rrandom (data-dependent bit-run loops), odd LC modulus exponents, statistical uniformity.",
 "technique": "bounded symbolic execution of the real C sources with CBMC (SAT); generator replaced by a nondeterministic stub for range properties; LC recurrence with limb products as shared uninterpreted functions; native replay of counterexamples",
}
