from vf import Query, G, MPZ_BASE, reuse
LEVEL = "model_checking"
REC = {"VF_REC_ALLOC": 1}

def queries(ctx):
    quick = ctx.tier == "quick"
    qs = []
    def add(name, defs, unwind=12, units=None, funcs=None, timeout=240):
        u = ["mpz/init.c", "mpz/init2.c", "mpz/iset.c", "mpz/iset_ui.c", "mpz/iset_si.c", "mpz/clear.c", "mpz/realloc2.c", "mpz/realloc.c", "mpz/swap.c", "mpz/set.c",
             "mpz/limbs_write.c", "mpz/limbs_modify.c", "mpz/limbs_read.c", "mpz/limbs_finish.c", "mpz/roinit_n.c", "memory.c", "assert.c", "errno.c", "mp_bpl.c", G + "copyi.c"]
        qs.append(Query(name, "C04_mpz_life.c", u, defs, unwind=unwind, funcs=funcs or ["mpz life cycle"], timeout=timeout if quick else 900))
    K = 2 if quick else 4
    add("life.init", {"FN": 0}, funcs=["mpz/init.c:mpz_init", "mpz/clear.c:mpz_clear"])
    for b in (0, 1, 64, 65, 128, 200):
        add("life.init2.bits%d" % b, {"FN": 1, "BITS": b}, funcs=["mpz/init2.c:mpz_init2"])
    for su in range(-K, K + 1):
        for au in (0, 2):
            add("life.init_set.su%d.au%d" % (su, au), {"FN": 2, "SU": "(%d)" % su, "AU": au}, funcs=["mpz/iset.c:mpz_init_set", "mpz/iset_ui.c:mpz_init_set_ui", "mpz/iset_si.c:mpz_init_set_si"])
            for b in (0, 1, 63, 64, 65, 128, 129, 256):
                add("life.realloc2.su%d.au%d.bits%d" % (su, au, b), {"FN": 3, "SU": "(%d)" % su, "AU": au, "BITS": b}, funcs=["mpz/realloc2.c:mpz_realloc2"])
            for nw in (0, 1, 2, 3, 5):
                add("life._mpz_realloc.su%d.au%d.new%d" % (su, au, nw), {"FN": 4, "SU": "(%d)" % su, "AU": au, "NEW": nw}, funcs=["mpz/realloc.c:_mpz_realloc"])
            for xs in (-2, 0, 1):
                add("life.swap.su%d.au%d.xs%d" % (su, au, xs), {"FN": 5, "SU": "(%d)" % su, "AU": au, "XS": "(%d)" % xs}, funcs=["mpz/swap.c:mpz_swap"])
            for n in (1, 2, 3):
                for xs in range(-n, n + 1):
                    add("life.limbs_write.su%d.au%d.n%d.xs%d" % (su, au, n, xs), {"FN": 6, "SU": "(%d)" % su, "AU": au, "N": n, "XS": "(%d)" % xs}, funcs=["mpz/limbs_write.c:mpz_limbs_write", "mpz/limbs_finish.c:mpz_limbs_finish"])
                add("life.limbs_modify.su%d.au%d.n%d" % (su, au, n), {"FN": 7, "SU": "(%d)" % su, "AU": au, "N": n}, funcs=["mpz/limbs_modify.c:mpz_limbs_modify", "mpz/limbs_read.c:mpz_limbs_read"])
            for b in (0, 64, 200):
                add("life.history.su%d.au%d.bits%d" % (su, au, b), {"FN": 9, "SU": "(%d)" % su, "AU": au, "BITS": b}, funcs=["mpz/realloc2.c:mpz_realloc2", "mpz/set.c:mpz_set"])
    for n in (1, 2, 3):
        for xs in range(-n, n + 1):
            add("life.roinit_n.n%d.xs%d" % (n, xs), {"FN": 8, "N": n, "XS": "(%d)" % xs}, funcs=["mpz/roinit_n.c:mpz_roinit_n"])
    # the value/format harness families of the other properties, re-run under the recording allocator: every query is one
    # inductive step "arbitrary well-formed pre-state (minimal or padded allocation) -> one call -> well formed, exact value,
    # allocator contract kept"; AX pads the input allocations so that both the realloc and the no-realloc paths are taken
    for ax in ((0,) if quick else (0, 1)):
        d = dict(REC, AX=ax)
        p = "rec%d." % ax
        qs += reuse(ctx, "C03", r"^mpz_", d, p, exclude=(r"cnt(63|65|127|191)" if quick else None))
        qs += reuse(ctx, "C10", r"^mpz_(and|ior|xor|com|setbit|clrbit|combit)", d, p, exclude=(r"bit(1|65|129|453|325)\." if quick else None))
        qs += reuse(ctx, "C01", r"^mpz_(mul|mul_ui|mul_si)\.", d, p)
    qs += reuse(ctx, "C12", r"^mpq_(add|sub|mul|div|canonicalize|inv|set|neg)\.", {}, "rec.", exclude=r"dn0" if quick else None)
    qs += reuse(ctx, "C17", r"^mpz_(inp_raw|out_raw|raw_roundtrip|import.size(1.nail7|8.nail0|9.nail0))", {}, "rec.", exclude=(r"maxb16|count3" if quick else None))
    return qs

ASSUMPTIONS = [
 "every query is one inductive step: objects are built directly in an arbitrary well-formed state (MPZ_CHECK_FORMAT transcribed: alloc >= 1, |size| <= alloc, top limb non-zero; limbs beyond |size| arbitrary) with minimal (AX=0) or padded allocation, one API call is made with arbitrary arguments, and the post-state is checked well formed again with the exact value; histories of any length follow by induction on that invariant",
 "the recording allocator is installed in __gmp_allocate_func/__gmp_reallocate_func/__gmp_free_func (what mp_set_memory_functions does); it serves each request by a block of exactly the requested concrete size, asserts block start + exact current size on realloc/free, and counts live blocks; CBMC's pointer checks decide 'reads and writes only inside owned blocks'",
 "excluded as the property says: mpz_random*, mpn_random*, mpf_random2, mpz_array_init",
]
MANIFEST = {
 "text": "Bounded model checking of the allocator contract and object invariants as an inductive step per API function: from an arbitrary well-formed pre-state with minimal allocation, one call of the real function (mpz life-cycle functions init/init2/init_set*/clear/realloc2/_mpz_realloc/swap/limbs_write/modify/finish/roinit_n; mpz add/sub/_ui/neg/abs/set/mul_2exp/mul/mul_ui/mul_si/and/ior/xor/com/setbit/clrbit/combit; mpq add/sub/mul/div/canonicalize/inv/set/neg; mpz_import/inp_raw/out_raw) under a recording allocator: every heap access inside a live block of the exact requested size (CBMC pointer checks), realloc/free get the block start and exact current size, no block survives clearing every object, result well formed and equal to the reference value for every allocation shape (so a value cannot depend on allocation history).",
 "note": "Bounds: operands <= 2 limbs quick / 3-4 thorough (as in the underlying C01/C03/C10/C12/C17 families), allocations minimal and minimal+1 (thorough) and exact/short destinations. Outside: string conversion and printf/scanf allocation (C06/C18 families carry their own leak checks where built), mpf objects (C13), gmp_randstate_t (C19), scratch sizing of the sub-quadratic algorithms.",
 "technique": "bounded symbolic execution of the real C sources with CBMC (SAT) as an inductive step over arbitrary well-formed pre-states, recording allocator with contract assertions, native ASan replay of counterexamples",
}
