"""C15: per-call footprint (frame) obligations -- see DESIGN.md section 4 C15.

CBMC cannot interleave this code (probe P13), so the schedule quantifier is not explored.  What the solver decides is the
per-call premise of the non-interference lemma: a reentrant function writes no static-lifetime object of the library (other
than the documented shared state).  Mechanism, regenerated from /repo on every run:
  1. every real unit of a query is compiled by goto-cc and its symbol table is read: all static-lifetime, non-const objects
     defined in the tree's files (file-scope or function-local) = the hidden-state inventory;
  2. units that define such objects are #included into one translation unit together with the harness, which makes
     file-scope objects nameable directly and function-local statics nameable through an asm label carrying CBMC's symbol
     name ("f::1::x"); their declared types are taken from the source line the symbol table points to;
  3. the harness main snapshots every inventoried object before the call (VF_FRAME_BEGIN) and asserts bit-equality after
     it (VF_FRAME_END), for all inputs of the harness (symbolic limbs etc.);
  4. a counterexample is replayed natively: the same units are compiled by gcc, their .data/.bss are renamed into sections
     of their own and the replay compares those sections before and after the call on the recorded inputs.
"""
import os, re, json, copy
import vf
from vf import Query, G

LEVEL = "model_checking"
DOCUMENTED = {"__gmp_allocate_func", "__gmp_reallocate_func", "__gmp_free_func", "__gmp_default_fp_limb_precision",
              "__gmp_rands", "__gmp_rands_initialized", "__gmp_errno", "gmp_errno", "__gmp_junk", "__gmp_0"}
_symcache = {}
_flocal = {}


def _is_const(t):
    if not isinstance(t, dict):
        return False
    ns = t.get("namedSub", {})
    if "#constant" in ns:
        return True
    if t.get("id") == "array" and t.get("sub"):
        return _is_const(t["sub"][0])
    return False


def unit_statics(ctx, unit, variant, unit_defs):
    """mutable static-lifetime objects defined by one real unit: list of dicts(name, base, func, file, line, ptype)"""
    key = (unit, variant, tuple(unit_defs))
    if key in _symcache:
        return _symcache[key]
    obj = ctx.unit_obj(unit, variant, extra=unit_defs)
    rc, so, se = vf.sh(["goto-instrument", "--show-symbol-table", "--json-ui", obj], timeout=120)
    out = []
    flocal = []
    upath = os.path.join(ctx.snap, unit.split(":")[0])
    try:
        data = json.loads(so)
    except Exception:
        raise vf.Infra("symbol table of %s unreadable: %s" % (unit, se[-300:]))
    for it in data:
        for name, s in (it.get("symbolTable") or {}).items() if isinstance(it, dict) else []:
            if s.get("isFileLocal") and "::" not in name and not s.get("isType") and not s.get("isMacro"):
                l0 = s.get("location", {})
                if os.path.normpath(os.path.join(l0.get("workingDirectory", ""), l0.get("file", ""))) == os.path.normpath(upath):
                    flocal.append(s.get("baseName") or name)
            if not s.get("isStaticLifetime") or s.get("isType") or s.get("isMacro") or s.get("isExtern"):
                continue
            if s.get("type", {}).get("id") == "code":
                continue
            loc = s.get("location", {})
            f = loc.get("file", "")
            if not f or f.startswith("<"):
                continue
            fa = os.path.normpath(os.path.join(loc.get("workingDirectory", ""), f))
            if not fa.startswith(ctx.snap) and not fa.startswith(ctx.scratch):
                continue        # libc headers, harness support
            if name.startswith("__CPROVER") or s.get("baseName", "").startswith("__CPROVER"):
                continue
            if _is_const(s.get("type")):
                continue
            if s.get("baseName") in DOCUMENTED or name in DOCUMENTED:
                continue
            if s.get("value", {}).get("id") == "nil" and not s.get("isFileLocal") and "::" not in name:
                pass
            out.append({"name": name, "base": s.get("baseName"), "func": loc.get("function"), "file": fa, "line": int(loc.get("line", "0") or 0),
                        "ptype": s.get("prettyType", ""), "local": "::" in name, "unit": unit})
    for o in out:
        o["flocal"] = flocal
    _flocal[key] = flocal
    _symcache[key] = out
    return out


def _decl_from_source(sym):
    """C declaration text of a function-local static, from its source line: returns (type_prefix, dims) or None"""
    try:
        lines = open(sym["file"]).read().split("\n")
    except Exception:
        return None
    txt = " ".join(lines[sym["line"] - 1: sym["line"] + 2])
    m = re.search(r"\bstatic\s+((?:[A-Za-z_][A-Za-z0-9_]*[\s\*]+)+?)\s*\b%s\b\s*((?:\[[^\]]*\]\s*)*)\s*(=|;|,)" % re.escape(sym["base"]), txt)
    if not m:
        return None
    return m.group(1).strip(), m.group(2).strip()


def _decl_from_pretty(sym):
    pt = sym["ptype"]
    m = re.match(r"^(.*?)((?:\s*\[\d+l?\])*)$", pt)
    base, dims = m.group(1).strip(), re.sub(r"(\d+)l", r"\1", m.group(2) or "").replace(" ", "")
    return base, dims


def frame_wrap(ctx, q, wdir):
    """-> (new query, inventory list) : q with the frame obligations added"""
    inv = []
    for u in q.units:
        if not u.split(":")[0].endswith(".c"):
            continue
        inv += unit_statics(ctx, u, q.variant, q.unit_defs)
    inc_units = []
    for s in inv:
        if s["unit"] not in inc_units:
            inc_units.append(s["unit"])
    nq = copy.copy(q)
    nq.defs = dict(q.defs); nq.units = [u for u in q.units if u not in inc_units]
    nq.frame_units = list(inc_units)
    nq.inventory = inv
    hsrc = q.harness if os.path.isabs(q.harness) else os.path.join(vf.VERIF, "harness", q.harness)
    L = ["/* generated by props/C15.py: frame wrapper around %s */" % os.path.basename(hsrc),
         "static void vf_frame (int);", "#define VF_FRAME_BEGIN() vf_frame (0)", "#define VF_FRAME_END() vf_frame (1)"]
    L.append('#include "mpir.h"\n#include "gmp-impl.h"\n#include "longlong.h"')
    L.append("#ifndef REPLAY")
    macros = sorted(q.defs.keys())
    for k in macros:
        L.append('#pragma push_macro("%s")\n#undef %s' % (k, k))
    ren = {}
    for k, u in enumerate(inc_units):
        path, _, op = u.partition(":")
        if not op and path.startswith("mpn/"):
            op = os.path.splitext(os.path.basename(path))[0]
        if op:
            L.append("#define OPERATION_%s 1" % op)
        fl = sorted(set(_flocal.get((u, q.variant, tuple(q.unit_defs)), [])))
        ren[u] = {b: "vfu%d_%s" % (k, b) for b in fl}
        for b in fl:            # file-local names get a per-unit prefix so that several units fit into one translation unit
            L.append("#define %s vfu%d_%s" % (b, k, b))
        L.append('#include "%s"' % os.path.join(ctx.snap, path))
        for b in fl:
            L.append("#undef %s" % b)
        if op:
            L.append("#undef OPERATION_%s" % op)
    for k in macros:
        L.append('#pragma pop_macro("%s")' % k)
    L.append("#endif")
    L.append('#include "%s"' % hsrc)
    L.append("#ifndef REPLAY")
    objs = []
    for i, s in enumerate(inv):
        r = ren.get(s["unit"], {})
        if s["local"]:
            d = _decl_from_source(s) or _decl_from_pretty(s)
            parts = s["name"].split("::")
            parts[0] = r.get(parts[0], parts[0])
            L.append('extern %s vf_fs%d %s __asm__("%s");' % (d[0], i, d[1], "::".join(parts)))
            objs.append(("vf_fs%d" % i, s))
        else:
            objs.append((r.get(s["base"], s["base"]), s))
    n = max(1, len(objs))
    L.append("#define VF_FMAXW 512")
    L.append("static unsigned char vf_fpool[%d][8 * VF_FMAXW];" % n)
    L.append("static void vf_frame_obj (int phase, int k, const void *p, unsigned long size)\n{ unsigned long i; const unsigned char *b = (const unsigned char *) p;\n"
             "  if (size > 8 * VF_FMAXW) size = 8 * VF_FMAXW;\n"
             "  for (i = 0; i < size; i++) { if (phase == 0) vf_fpool[k][i] = b[i]; else __CPROVER_assert (vf_fpool[k][i] == b[i], \"frame: static-lifetime object of the library unchanged by the call\"); } }")
    L.append("static void vf_frame (int phase)\n{")
    for k, (nm, s) in enumerate(objs):
        L.append("  vf_frame_obj (phase, %d, (const void *) &%s, sizeof (%s));   /* %s (%s:%d) */" % (k, nm, nm, s["name"], os.path.relpath(s["file"], ctx.snap), s["line"]))
    L.append("}")
    L.append("#else")
    L.append("""extern unsigned char __start_vfdata[] __attribute__((weak)), __stop_vfdata[] __attribute__((weak));
extern unsigned char __start_vfbss[] __attribute__((weak)), __stop_vfbss[] __attribute__((weak));
static unsigned char vf_fsave[2][1 << 20];
__attribute__((no_sanitize_address)) static void vf_frame_sec (int phase, int k, unsigned char *a, unsigned char *e)
{ unsigned long i, n = a && e ? (unsigned long) (e - a) : 0; if (n > (1 << 20)) n = 1 << 20;
  for (i = 0; i < n; i++) { if (phase == 0) vf_fsave[k][i] = a[i]; else if (vf_fsave[k][i] != a[i]) { printf ("REPLAY-FAIL frame: byte %lu of the library's %s section changed during the call\\n", i, k ? ".bss" : ".data"); exit (1); } } }
static void vf_frame (int phase) { vf_frame_sec (phase, 0, __start_vfdata, __stop_vfdata); vf_frame_sec (phase, 1, __start_vfbss, __stop_vfbss); }""")
    L.append("#endif")
    hp = os.path.join(wdir, re.sub(r"[^A-Za-z0-9_.-]", "_", q.name) + ".c")
    open(hp, "w").write("\n".join(L) + "\n")
    nq.harness = hp
    nq.unwindset = list(q.unwindset) + ["vf_frame_obj.0:%d" % (8 * 512 + 2)]
    nq.name = "frame." + q.name
    nq.shape = dict(q.defs)
    return nq, inv


# -- selection of base queries from the other property modules (their harness families are shared) -------------------------
def base_queries(ctx):
    quick = ctx.tier == "quick"
    sel = []
    def take(mod, regex, k):
        try:
            qs = vf.reuse(ctx, mod, regex)
        except Exception as e:
            raise vf.Infra("C15: cannot reuse %s: %r" % (mod, e))
        # spread the picks over the family: every (len/k)-th query
        if len(qs) > k:
            step = len(qs) / float(k)
            qs = [qs[int(i * step)] for i in range(k)]
        for q in qs:
            q.name = mod + "." + q.name
        sel.extend(qs)
    k = 2 if quick else 6
    take("C03", r"^mpz_(add|sub)\.", k); take("C03", r"^mpn_(add_n|lshift)", k); take("C03", r"^mpz_(add_ui|mul_2exp|neg|set)", k)
    take("C10", r"^mpz_(and|ior|xor|com)", k); take("C10", r"^mpz_(setbit|clrbit|scan|popcount|tstbit)", k)
    take("C01", r"^mpz_mul", k); take("C01", r"^mpn_mul", k)
    take("C02", r"^mpz_(fdiv|cdiv|tdiv)", k)
    take("C06", r".*", 2 * k)
    take("C07", r"^mpz_(gcd|lcm|gcd_ui)\.", k)
    take("C08", r"^powm\.m(9|16)\.e(2|21)\.sb1$|^powm_ui\.m9\.e5\.sb1$|^powm\.m9\.eneg1\.sb1$", 4 if quick else 5)
    take("C09", r"^mpz_(sqrt|root)|^sqrt1", k)
    take("C11", r".*", k)
    take("C12", r"^mpq_(add|mul|canonicalize|set|inv)", k)
    take("C13", r".*", k)
    take("C16", r".*", 3 * k)
    take("C17", r".*", k)
    take("C18", r"^(?!kf\.).*", k)
    take("C19", r".*", 2 * k)
    return sel


def own_queries(ctx):
    """frame-only calls (harness/C15_calls.c) of functions the property names that have no value family elsewhere"""
    quick = ctx.tier == "quick"
    B = ["memory.c", "mpz/realloc.c", "assert.c", "mp_bpl.c", "tal-reent.c", "mpz/clear.c", "mp_clz_tab.c", "mp_minv_tab.c", "errno.c", "mp_dv_tab.c"]
    LIN = [G + x + ".c" for x in ("cmp", "copyi", "copyd", "zero", "lshift", "rshift", "add_1", "sub_1", "add_n", "sub_n", "add", "sub", "neg_n", "com_n")]
    MUL = [G + x + ".c" for x in ("mul", "mul_n", "mul_1", "addmul_1", "submul_1", "mul_basecase", "sqr_basecase")]
    DIV = [G + x + ".c" for x in ("tdiv_qr", "divrem_1", "divrem_2", "sb_div_qr", "sb_div_q", "sb_divappr_q", "dc_div_qr", "dc_div_qr_n", "dc_div_q", "dc_divappr_q", "inv_div_qr", "inv_div_qr_n", "inv_div_q", "inv_divappr_q", "inv_divappr_q_n", "invert", "tdiv_q", "mod_1", "preinv_divrem_1", "divrem_euclidean_qr_1", "divrem_euclidean_qr_2", "divrem_euclidean_r_1", "rsh_divrem_hensel_qr_1", "rsh_divrem_hensel_qr_1_1", "rsh_divrem_hensel_qr_1_2", "divrem_hensel_qr_1", "divrem_hensel_qr_1_1", "divrem_hensel_qr_1_2", "divrem_hensel_r_1", "divrem_hensel_rsh_qr_1", "mod_1_1", "mod_1_2", "mod_1_3", "preinv_mod_1", "mullow_n", "mullow_n_basecase", "mullow_basecase", "mulhigh_n", "mulmod_2expm1", "mulmod_2expp1_basecase", "mulmod_bexpp1")]
    qs = []
    for lo, hi in ((60, 400), (400, 4000)) + (() if quick else ((4000, 1 << 15), (1 << 15, 1 << 18))):
        qs.append(Query("mul_fft_main.n%d_%d" % (lo, hi), "C15_calls.c", ["fft/mul_fft_main.c"], {"FN": 0, "NLO": lo, "NHI": hi}, unwind=30, timeout=600, variant="exact+assert",
                        funcs=["fft/mul_fft_main.c:mpn_mul_fft_main"], domain="D-SHAPE", stubs=["mpn_mul_trunc_sqrt2 / mpn_mul_mfa_trunc_sqrt2 -> contract stubs asserting that the chosen (depth, w) holds the product"]))
    # (frame calls of mpz_set_str / mpz_get_str through the DC and precomputed-power-table paths (tuning table lowered so that 24 digits /
    #  3 limbs reach them) were measured out of reach even with concrete operands: memory-out at 3.5 GB / no result in 600 s; not registered)
    for sub, nm in ((0, "fib_ui"), (1, "lucnum_ui")):
        for nv in (100, 200) if quick else (94, 100, 150, 200, 377):
            qs.append(Query("mpz_%s.n%d" % (nm, nv), "C15_calls.c", ["mpz/fib_ui.c", "mpz/lucnum_ui.c", G + "fib2_ui.c", G + "fib_table.c", "mpz/mul_2exp.c", "mpz/set_ui.c"] + MUL + LIN + B, {"FN": 3, "SUB": sub, "NV": nv}, unwind=20, timeout=600,
                            funcs=["mpz/%s.c:mpz_%s" % (nm, nm), G + "fib2_ui.c:mpn_fib2_ui"], domain="D-SHAPE"))
    for sub, nm, thr in ((0, "mul_n", "MUL_KARATSUBA_THRESHOLD"), (1, "sqr", "SQR_KARATSUBA_THRESHOLD")):
        for nv in ((4, 5) if quick else (4, 5, 6, 7, 8)):
            qs.append(Query("mpn_%s.kara4.n%d" % (nm, nv), "C15_calls.c", MUL + LIN + B, {"FN": 5, "SUB": sub, "NV": nv}, unwind=nv + 4, timeout=600, variant="exact+thr:%s=4" % thr,
                            funcs=[G + "mul_n.c:mpn_mul_n" if sub == 0 else G + "mul_n.c:mpn_sqr", G + "mul_n.c:mpn_kara_mul_n" if sub == 0 else G + "mul_n.c:mpn_kara_sqr_n"], domain="D-FULL (one symbolic limb, other limbs concrete)",
                            stubs=["sqr_basecase.asm -> generic C twin", "tuning table: %s lowered to 4 (valid setting)" % thr]))
    return qs


def queries(ctx):
    wdir = os.path.join(ctx.scratch, "c15gen"); os.makedirs(wdir, exist_ok=True)
    out = []
    ctx.c15_inventory = {}
    for q in base_queries(ctx) + own_queries(ctx):
        nq, inv = frame_wrap(ctx, q, wdir)
        for s in inv:
            ctx.c15_inventory[s["name"]] = "%s:%d %s" % (os.path.relpath(s["file"], ctx.snap), s["line"], s["ptype"])
        out.append(nq)
    return out


def extra_cov(ctx, done):
    return {"static_inventory": getattr(ctx, "c15_inventory", {}),
            "documented_shared_state_excluded": sorted(DOCUMENTED),
            "frame_units_included": sorted(set(u for q in done for u in getattr(q, "frame_units", [])))}


ASSUMPTIONS = [
 "non-interference lemma (trusted, not explored by the solver): if every call writes only its destination objects, memory it allocated itself and its own stack, and reads besides its arguments only static objects that no call writes, then threads with distinct destinations and private random states have no data race and compute sequential results under every schedule",
 "the solver decides, per harnessed call and for all its symbolic inputs, that every static-lifetime non-const object defined by the real units of the query (file-scope or function-local; inventory regenerated from the goto symbol tables on every run) is bit-identical before and after the call; documented shared state (memory function pointers, default mpf precision, __gmp_rands*, gmp_errno) is excluded",
 "objects larger than 4096 bytes are compared on their first 4096 bytes",
 "schedules themselves are not explored: CBMC aborts on this code with 'pointer handling for concurrency is unsound' (DESIGN probe P13); same-value writes are invisible to a bit-equality frame condition",
]
MANIFEST = {
 "text": "Bounded model checking of the per-call footprint premise of the thread-safety argument: for every harnessed reentrant function (the value harness families of C01-C03, C06-C13, C16-C19 re-run inside a generated wrapper) the solver decides over all symbolic inputs that the call leaves every static-lifetime non-const object of the real library units bit-identical (function-local statics are named through asm labels carrying CBMC's symbol names; the inventory is rebuilt from the goto symbol tables on every run), so no hidden cache, lazily initialised table, static temporary or shared scratch buffer is written by a reentrant call. The schedule quantifier itself is discharged by the stated non-interference lemma, not by the solver.",
 "note": "Bounds: the shapes of the reused harness families (a spread of queries per family; <= 3-4 limbs); mpn_mul_n / mpn_sqr with the Karatsuba threshold of the tuning table lowered to 4 (a valid setting) at 4 and 5 limbs (one symbolic limb, exact products), so that the fixed-size workspace path and mpn_kara_mul_n / mpn_kara_sqr_n are inside a frame query. Outside: interleavings (CBMC cannot interleave this code), functions without a harness family (the FFT transforms themselves, Miller-Rabin/probab_prime_p, gcdext, scanf, mpf I/O) and the DC / precomputed-power-table paths of mpn_set_str / mpn_get_str (measured out of reach), writes that store the value already present.",
 "technique": "bounded symbolic execution of the real C sources with CBMC (SAT): frame condition over all static-lifetime objects of the library (symbol-table inventory, asm-label naming of function-local statics) asserted around each harnessed call; native replay by comparing the library's data sections before and after the call",
}
