from vf import Query, G
LEVEL = "model_checking"
BASE = ["memory.c", "mpz/realloc.c", "assert.c", "mp_bpl.c", "tal-reent.c", "mpz/clear.c", "mp_clz_tab.c", "mp_minv_tab.c"]
LIN = [G + x + ".c" for x in ("cmp", "copyi", "copyd", "zero", "lshift", "rshift", "add_1", "sub_1", "add_n", "sub_n", "add", "sub", "neg_n", "com_n")]
MUL = [G + x + ".c" for x in ("mul", "mul_n", "mul_1", "addmul_1", "submul_1", "mul_basecase", "sqr_basecase", "mullow_n", "mullow_n_basecase", "mullow_basecase", "mulhigh_n", "mulmod_2expm1", "mulmod_2expp1_basecase", "mulmod_bexpp1")]
DIV = [G + x + ".c" for x in ("tdiv_qr", "divrem_1", "divrem_2", "sb_div_qr", "sb_div_q", "sb_divappr_q", "dc_div_qr", "dc_div_qr_n", "dc_div_q", "dc_divappr_q", "inv_div_qr", "inv_div_qr_n", "inv_div_q", "inv_divappr_q", "inv_divappr_q_n", "invert", "tdiv_q", "mod_1", "preinv_divrem_1", "divrem_euclidean_qr_1", "divrem_euclidean_qr_2", "divrem_euclidean_r_1", "sb_bdiv_q", "sb_bdiv_qr", "dc_bdiv_q", "dc_bdiv_q_n", "dc_bdiv_qr", "dc_bdiv_qr_n", "rsh_divrem_hensel_qr_1", "rsh_divrem_hensel_qr_1_1", "rsh_divrem_hensel_qr_1_2", "divrem_hensel_qr_1", "divrem_hensel_qr_1_1", "divrem_hensel_qr_1_2", "divrem_hensel_r_1", "divrem_hensel_rsh_qr_1", "mod_1_1", "mod_1_2", "mod_1_3", "preinv_mod_1")]
POW = ["mpz/powm.c", "mpz/powm_ui.c", G + "powm.c", G + "powlo.c", G + "binvert.c", G + "redc_1.c", G + "redc_2.c", G + "redc_n.c"]

PW = ["mpz/pow_ui.c", "mpz/ui_pow_ui.c", "mpz/n_pow_ui.c"]

def queries(ctx):
    quick = ctx.tier == "quick"
    qs = []
    FU = ["mpz/powm.c:mpz_powm", "mpz/powm_ui.c:mpz_powm_ui", G + "powm.c:mpn_powm", G + "powlo.c:mpn_powlo", G + "binvert.c:mpn_binvert", G + "redc_1.c:mpn_redc_1",
          G + "mullow_n.c:mpn_mullow_n", G + "tdiv_qr.c:mpn_tdiv_qr", G + "mul_basecase.c:mpn_mul_basecase", G + "sqr_basecase.c:mpn_sqr_basecase"]
    def add(name, defs=None, **kw):
        qs.append(Query(name, "C08_powm_small.c", POW + MUL + DIV + LIN + BASE, defs, unwind=12, hunwind=70, timeout=600 if quick else 1500, domain="D-SMALL", funcs=FU,
                        stubs=["mpz_invert -> specification stub (inverse modulo the concrete modulus by search; asserts it receives the modulus and a temporary destination)"], **kw))
    # moduli: odd (square-free and not), powers of two, even with every small 2-adic valuation, +-1
    MQ = (1, 2, 3, 8, 9, 12, 15, 16, 24, 63)        # quick tier sized to ~4 min on 16 cores (the 19-modulus set ran > 900 s in a fresh sandbox)
    MT = tuple(range(1, 65)) + (75, 81, 96, 121, 125, 128, 135, 225, 243, 255, 256)
    EQ = (2, 3, 6, 21)          # 21 >= 20: mpz_powm_ui forwards to mpz_powm
    ET = (2, 3, 4, 5, 6, 7, 8, 11, 16, 21, 27, 127, 128, 255, (1 << 26) + 5)      # window widths 1 (<= 7 bits), 2 (<= 25 bits), 3
    for mv in (MQ if quick else MT):
        for ev in (EQ if quick else ET):
            for sb in ((1, -1) if (ev == 2 if quick else True) else (1,)):        # (a symbolic sign makes every size symbolic: measured memory-out)
                add("powm.m%d.e%d.sb%d" % (mv, ev, sb), {"FN": 0, "MV": mv, "SB": "(%d)" % sb, "BB": 6 if quick else 7, "ES": 1, "EV": ev, "ALIAS": 0})
    # special exponents 0 and 1, zero base, negative modulus, aliasing, negative exponents (inverse or DIVIDE_BY_ZERO)
    for mv in ((1, 2, 9, 12, 16) if quick else (1, 2, 3, 4, 9, 12, 15, 16, 18, 25, 32, 45)):
        add("powm.m%d.e0" % mv, {"FN": 0, "MV": mv, "SB": 1, "BB": 6, "ES": 0, "EV": 0, "ALIAS": 0})
        add("powm.m%d.e1" % mv, {"FN": 0, "MV": mv, "SB": 1, "BB": 6, "ES": 1, "EV": 1, "ALIAS": 0})
        add("powm.m%d.e1.bsh" % mv, {"FN": 0, "MV": mv, "SB": 1, "BB": 6, "BSH": 58, "ES": 1, "EV": 1, "ALIAS": 0})
        add("powm.m%d.e5.b0" % mv, {"FN": 0, "MV": mv, "SB": 0, "BB": 6, "ES": 1, "EV": 5, "ALIAS": 0})
        add("powm.mneg%d.e3" % mv, {"FN": 0, "MV": mv, "MS": "(-1)", "SB": "(-1)", "BB": 6, "ES": 1, "EV": 3, "ALIAS": 0})
        # negative exponents: 3.5 GB is not enough on the unchanged tree (measured memory-out / solver resource errors), so they run in the
        # thorough tier only, with a 10 GB limit
        for ev in (() if quick else (1, 2, 3, 5)):
            for sb in (1, -1):
                add("powm.m%d.eneg%d.sb%d" % (mv, ev, sb), mem_gb=10, defs={"FN": 0, "MV": mv, "SB": "(%d)" % sb, "BB": 5, "ES": "(-1)", "EV": ev, "ALIAS": 0})
        for al in (1, 2, 3):
            add("powm.m%d.e3.alias%d" % (mv, al), {"FN": 0, "MV": mv, "SB": 1, "BB": 6, "ES": 1, "EV": 3, "ALIAS": al})
    # mpz_powm_ui own code (exponents below 20)
    for mv in ((1, 2, 9, 12, 16, 63) if quick else MT):
        for ev in ((0, 1, 2) if quick else (0, 1, 2, 3, 4, 5, 7, 8, 15, 16, 19)):      # e >= 5: memory-out at 3.5 GB on the unchanged tree -> thorough tier, 10 GB
            for sb in ((1, -1) if ev in (2, 5) else (1,)):
                add("powm_ui.m%d.e%d.sb%d" % (mv, ev, sb), mem_gb=(10 if ev >= 5 else None), defs={"FN": 1, "MV": mv, "SB": "(%d)" % sb, "BB": 6 if quick else 7, "ES": 1 if ev else 0, "EV": ev, "ALIAS": 0})
        add("powm_ui.m%d.e3.alias1" % mv, {"FN": 1, "MV": mv, "SB": 1, "BB": 6, "ES": 1, "EV": 3, "ALIAS": 1})
        add("powm_ui.m%d.e2.bsh" % mv, {"FN": 1, "MV": mv, "SB": 1, "BB": 6, "BSH": 58, "ES": 1, "EV": 2, "ALIAS": 0})
    return qs

ASSUMPTIONS = [
 "small-value domain: modulus concrete per query (one limb, listed set incl. 1, powers of two, even moduli of every small 2-adic valuation, odd square-free and non-square-free), exponent concrete per query (so that every loop of the window exponentiation has a concrete trip count), base magnitude symbolic (all values below 2^6 quick / 2^7 thorough, optionally shifted to the top of the limb), base sign concrete per query (both signs enumerated)",
 "mpz_invert (negative exponents) is a specification stub; everything else is the real code: mpz_powm, mpz_powm_ui, mpn_powm (window table, REDC_1), mpn_powlo, mpn_binvert, mpn_mullow_n, mpn_mul, mpn_tdiv_qr, mpn_divrem_1",
 "oracle: square-and-multiply in 32-bit arithmetic modulo the concrete modulus",
]
MANIFEST = {
 "text": "Bounded model checking of the real modular-power sources on a small-value domain: mpz_powm and mpz_powm_ui return base^exp mod |mod| in [0,|mod|) for every base value in the domain (both signs, zero, above the modulus), every enumerated exponent (0, 1, both parities, every window width up to 3, negative with an invertible or non-invertible base: inverse or DIVIDE_BY_ZERO) and every enumerated one-limb modulus (odd, even with any 2-adic valuation, powers of two, +-1), for every aliasing of the result with an operand; operands unchanged, no block leaked.",
 "note": "Bounds: one-limb moduli from the listed set (10 quick / 75 thorough), exponents from the listed set (concrete per query; negative exponents and mpz_powm_ui exponents >= 5 in the thorough tier only: they need more than the 3.5 GB quick budget), |base| < 2^6 (2^7 thorough). Outside: multi-limb moduli (REDC_2/REDC_n, POWM_THRESHOLD crossovers, whole zero low limbs), symbolic exponents, mpz_pow_ui/mpz_ui_pow_ui/mpz_n_pow_ui (measured: the size estimate makes every later size symbolic and the query does not finish in 400 s even for e = 2 and 8-bit bases), general operand values (products of symbolic 64-bit residues: DESIGN 1, R4).",
 "technique": "bounded symbolic execution of the real C sources with CBMC (SAT) on a small-value domain: concrete modulus and exponent per query x symbolic base, square-and-multiply reference in narrow arithmetic, specification stub for mpz_invert, native replay of counterexamples",
}
