from vf import Query, MPZ_BASE, G, MPN_LIN
LEVEL = "model_checking"

def queries(ctx):
    quick = ctx.tier == "quick"
    qs = []
    def add(name, h, units, defs, unwind, funcs, timeout=300, **kw):
        qs.append(Query(name, h, units, defs, unwind=unwind, funcs=funcs, timeout=timeout if quick else 1200, **kw))
    zu = ["mpz/" + x + ".c" for x in ("cmp", "cmpabs", "cmp_ui", "cmp_si", "cmpabs_ui", "fits_sint", "fits_slong", "fits_sshort", "fits_uint", "fits_ulong", "fits_ushort",
                                     "get_si", "get_ui", "get_sx", "get_ux", "set_si", "set_ui", "set_sx", "set_ux", "get_d", "get_d_2exp", "set_d", "cmp_d", "cmpabs_d")]
    base = zu + MPN_LIN + MPZ_BASE + [G + "get_d.c", "extract-dbl.c", "invalid.c"]
    K = 3 if quick else 4
    for fn, nm in ((0, "cmp"), (1, "cmpabs")):
        for su in range(-K, K + 1):
            for sv in range(-K, K + 1):
                add("mpz_%s.su%d.sv%d" % (nm, su, sv), "C11_mpz_int.c", base, {"FN": fn, "SU": "(%d)" % su, "SV": "(%d)" % sv}, K + 5, ["mpz/%s.c:mpz_%s" % (nm, nm)])
    for fn, nm in ((2, "cmp_ui"), (3, "cmp_si"), (4, "cmpabs_ui"), (5, "sgn"), (6, "fits"), (7, "get")):
        for su in range(-K, K + 1):
            add("mpz_%s.su%d" % (nm, su), "C11_mpz_int.c", base, {"FN": fn, "SU": "(%d)" % su}, K + 5, ["mpz/*:mpz_" + nm])
    for fn, nm in ((8, "set_ui"), (9, "set_si"), (10, "set_ux"), (11, "set_sx")):
        for su in (-2, 0, 2):
            for au in (1, 2):
                if au < abs(su): continue
                add("mpz_%s.su%d.au%d" % (nm, su, au), "C11_mpz_int.c", base, {"FN": fn, "SU": "(%d)" % su, "AU": au}, 8, ["mpz/%s.c:mpz_%s" % (nm, nm)])
    for su in range(-K, K + 1):
        add("mpz_get_d.su%d" % su, "C11_mpz_dbl.c", base, {"FN": 0, "SU": "(%d)" % su}, K + 5, ["mpz/get_d.c:mpz_get_d", G + "get_d.c:mpn_get_d"])
        add("mpz_get_d_2exp.su%d" % su, "C11_mpz_dbl.c", base, {"FN": 1, "SU": "(%d)" % su}, K + 5, ["mpz/get_d_2exp.c:mpz_get_d_2exp", G + "get_d.c:mpn_get_d"])
    for n in (1, 2, 3):
        add("mpn_get_d.n%d" % n, "C11_mpz_dbl.c", base, {"FN": 5, "SU": n}, 8, [G + "get_d.c:mpn_get_d"])
    exps = [-1023, -2, -1, 0, 1, 51, 52, 53, 62, 63, 64, 65, 116, 127, 128, 129, 1024] if quick else [-1023, -1022, -2, -1] + list(range(0, 70)) + [115, 116, 117, 126, 127, 128, 129, 130, 191, 192, 193, 1023, 1024]
    for e in exps:
        if e != 1024 and e != -1023:      # subnormal doubles through mpz_set_d: the 52-step normalisation loop on a symbolic mantissa needs 22 GB / 450 s (measured); outside the claim
            for aw in (1, 8):
                add("mpz_set_d.e%d.aw%d" % (e, aw), "C11_mpz_dbl.c", base, {"FN": 2, "SU": 0, "E": "(%d)" % e, "AW": aw}, 12 if e != -1023 else 70, ["mpz/set_d.c:mpz_set_d", "extract-dbl.c:__gmp_extract_double"])
        for su in range(-3, 4):
            if e > 200 and e != 1024: continue
            add("mpz_cmp_d.su%d.e%d" % (su, e), "C11_mpz_dbl.c", base, {"FN": 3, "SU": "(%d)" % su, "E": "(%d)" % e}, 12 if e != -1023 else 70, ["mpz/cmp_d.c:mpz_cmp_d"])
            add("mpz_cmpabs_d.su%d.e%d" % (su, e), "C11_mpz_dbl.c", base, {"FN": 4, "SU": "(%d)" % su, "E": "(%d)" % e}, 12 if e != -1023 else 70, ["mpz/cmpabs_d.c:mpz_cmpabs_d"])
    K = 2 if quick else 3
    for s1n in range(-K, K + 1):
        for s1d in range(1, K + 1):
            for s2n in range(-K, K + 1):
                for s2d in range(1, K + 1):
                    if quick and abs(s1n) != abs(s2n) and s1d != s2d: continue
                    add("mpq_equal.a%d_%d.b%d_%d" % (s1n, s1d, s2n, s2d), "C11_mpq_equal.c", ["mpq/equal.c"] + MPZ_BASE, {"S1N": "(%d)" % s1n, "S1D": s1d, "S2N": "(%d)" % s2n, "S2D": s2d, "SAME": 0}, K + 4, ["mpq/equal.c:mpq_equal"])
    add("mpq_equal.same", "C11_mpq_equal.c", ["mpq/equal.c"] + MPZ_BASE, {"S1N": -2, "S1D": 2, "S2N": 1, "S2D": 1, "SAME": 1}, K + 4, ["mpq/equal.c:mpq_equal"])
    return qs

MANIFEST = {
 "text": "Bounded model checking of the real comparison/conversion sources: comparisons are checked against the sign of the exact two's-complement difference, conversions against bit-exact reference constructions (doubles are 64-bit patterns: no floating-point arithmetic on either side), for all limb contents, all C operand values and all 2^52 mantissas x both signs per enumerated exponent.",
 "note": "Bounds: mpz <= 3 limbs (quick) / 4; double exponents enumerated (boundary set quick; 0..69 and limb boundaries thorough), mantissa/sign symbolic; mpn_get_d with symbolic exponent offset in [-1400,1200] covering overflow-to-inf, subnormal and underflow. mpq/mpf comparisons are checked under C12/C13 harness families. Trusted: CBMC's union/bit-field layout of IEEE doubles (x86-64), the reference constructions in the harness.",
}
