from vf import Query, G
LEVEL = "model_checking"
BASE = ["memory.c", "mpz/realloc.c", "assert.c", "mp_bpl.c", "mpz/clear.c", "tal-reent.c"]
LIN = [G + x + ".c" for x in ("add_n", "sub_n", "cmp", "add", "sub", "add_1", "sub_1", "copyi", "copyd", "zero", "lshift", "rshift")]
MPZ_L = ["mpz/add.c", "mpz/sub.c", "mpz/add_ui.c", "mpz/sub_ui.c", "mpz/set.c"]
ROUND = ["mpz/%s.c" % x for x in ("fdiv_q", "fdiv_r", "fdiv_qr", "cdiv_q", "cdiv_r", "cdiv_qr", "mod")]
CORE_STUB = ["mpz_tdiv_qr/mpz_tdiv_r/mpz_tdiv_q -> contract stub: checks operand values and q != r, returns arbitrary (Q,R) with sign(Q)=sign(n)sign(d), sign(R)=sign(n), |R|<|D|, |Q|<=|N|"]

def queries(ctx):
    quick = ctx.tier == "quick"
    qs = []
    def add(name, h, units, defs, unwind, funcs, timeout=240, **kw):
        qs.append(Query(name, h, units, defs, unwind=unwind, funcs=funcs, timeout=timeout if quick else 900, **kw))
    K = 2 if quick else 3
    full_alias = {(2, 1), (-2, -1), (2, -2), (-1, 2), (-2, 2), (1, 1)}
    for fn, nm in enumerate(("fdiv_q", "fdiv_r", "fdiv_qr", "cdiv_q", "cdiv_r", "cdiv_qr", "mod")):
        two = nm.endswith("qr")
        for sn in range(-K, K + 1):
            for sd in range(-K, K + 1):
                if sd == 0:
                    if sn == 1:
                        add("mpz_%s.sn1.sd0.sq0.sr0.alias0" % nm, "C02_mpz_round.c", ROUND + MPZ_L + LIN + BASE, {"FN": fn, "SN": 1, "SD": 0, "SQ": 0, "SR": 0, "ALIAS": 0}, K + 6, ["mpz/%s.c:mpz_%s" % (nm, nm)], stubs=CORE_STUB)
                    continue
                nn, dn = abs(sn), abs(sd)
                if nn < dn:
                    shapes = [(0, nn)]
                else:
                    qmax = nn - dn + 1
                    shapes = sorted(set([(qmax, 0), (qmax, dn), (max(0, qmax - 1), dn)] + ([(qmax, dn - 1)] if dn > 1 and not quick else [])))
                    if nn == 0: shapes = [(0, 0)]
                aliases = range(7) if two else range(3)
                if quick and (sn, sd) not in full_alias:
                    aliases = (0, 6) if two else (0, 2)
                for sq, sr in shapes:
                    for al in aliases:
                        add("mpz_%s.sn%d.sd%d.sq%d.sr%d.alias%d" % (nm, sn, sd, sq, sr, al), "C02_mpz_round.c", ROUND + MPZ_L + LIN + BASE,
                            {"FN": fn, "SN": "(%d)" % sn, "SD": "(%d)" % sd, "SQ": sq, "SR": sr, "ALIAS": al}, K + 6, ["mpz/%s.c:mpz_%s" % (nm, nm)], stubs=CORE_STUB)
    # mpz_tdiv_qr/q/r over the mpn core contract
    TD = ["mpz/tdiv_qr.c", "mpz/tdiv_q.c", "mpz/tdiv_r.c"] + LIN + BASE
    st = ["mpn_tdiv_qr/mpn_tdiv_q -> contract stub (sizes, divisor top limb, operand values, no overlap of outputs with inputs; arbitrary Q <= N, R < D)"]
    for fn, nm in enumerate(("tdiv_qr", "tdiv_q", "tdiv_r")):
        for sn in range(-K, K + 1):
            for sd in range(-K, K + 1):
                if sd == 0 and sn != 1: continue
                for al in (range(7) if fn == 0 else range(3)):
                    for aq in ((0,) if al or quick else (0, 2)):
                        add("mpz_%s.sn%d.sd%d.alias%d.aq%d" % (nm, sn, sd, al, aq), "C02_mpz_tdiv.c", TD, {"FN": fn, "SN": "(%d)" % sn, "SD": "(%d)" % sd, "ALIAS": al, "AQ": aq}, K + 6, ["mpz/%s.c:mpz_%s" % (nm, nm)], stubs=st)
    UI = ["mpz/%s.c" % x for x in ("fdiv_q_ui", "fdiv_r_ui", "fdiv_qr_ui", "fdiv_ui", "cdiv_q_ui", "cdiv_r_ui", "cdiv_qr_ui", "cdiv_ui", "tdiv_q_ui", "tdiv_r_ui", "tdiv_qr_ui", "tdiv_ui")] + LIN + BASE
    st = ["mpn_divrem_1/mpn_mod_1 -> contract stub (sizes, divisor, operand values; arbitrary Q <= N, R < d, R != 0 => Q < N)"]
    KU = 2 if quick else 3
    for fn, nm in enumerate(("fdiv_q_ui", "fdiv_r_ui", "fdiv_qr_ui", "fdiv_ui", "cdiv_q_ui", "cdiv_r_ui", "cdiv_qr_ui", "cdiv_ui", "tdiv_q_ui", "tdiv_r_ui", "tdiv_qr_ui", "tdiv_ui")):
        kind = fn % 4
        for sn in range(-KU, KU + 1):
            for al in ((0,) if kind == 3 else (0, 1) if kind < 2 else (0, 1, 2)):
                for zd in ((0, 1) if (sn == 1 and al == 0) else (0,)):
                    add("mpz_%s.sn%d.alias%d.zd%d" % (nm, sn, al, zd), "C02_mpz_ui.c", UI, {"FN": fn, "SN": "(%d)" % sn, "ALIAS": al, "ZD": zd, "AQ": 0}, KU + 6, ["mpz/%s.c:mpz_%s" % (nm, nm)], stubs=st)
    # power-of-two family: all values
    K2 = 2 if quick else 3
    e2 = ["mpz/cfdiv_q_2exp.c", "mpz/cfdiv_r_2exp.c", "mpz/tdiv_q_2exp.c", "mpz/tdiv_r_2exp.c", "mpz/divis_2exp.c", "mpz/cong_2exp.c", "mpz/set.c", G + "com_n.c", G + "neg_n.c", G + "zero_p.c", "errno.c"] + LIN + BASE
    cnts = (0, 1, 63, 64, 65, 128, 129) if quick else (0, 1, 2, 31, 63, 64, 65, 100, 127, 128, 129, 191, 192, 200)
    for fn, nm in enumerate(("fdiv_q_2exp", "cdiv_q_2exp", "tdiv_q_2exp", "fdiv_r_2exp", "cdiv_r_2exp", "tdiv_r_2exp")):
        for sn in range(-K2, K2 + 1):
            for cnt in cnts:
                for al in (0, 1):
                    need = max(1, abs(sn) + 1, cnt // 64 + 1)
                    for aw in (sorted(set([1, need])) if al == 0 else [0]):
                        add("mpz_%s.sn%d.cnt%d.alias%d.aw%d" % (nm, sn, cnt, al, aw), "C02_mpz_2exp.c", e2, {"FN": fn, "SN": "(%d)" % sn, "CNT": cnt, "ALIAS": al, "AW": max(1, aw)},
                            abs(sn) + cnt // 64 + 8, ["mpz/%s.c:mpz_%s" % ("cfdiv_" + nm[5:] if nm[0] in "cf" else nm, nm)])
    for sn in range(-K2, K2 + 1):
        for cnt in cnts:
            add("mpz_divisible_2exp_p.sn%d.cnt%d" % (sn, cnt), "C02_mpz_2exp.c", e2, {"FN": 6, "SN": "(%d)" % sn, "CNT": cnt, "ALIAS": 0}, abs(sn) + cnt // 64 + 8, ["mpz/divis_2exp.c:mpz_divisible_2exp_p"])
            for sv in range(-K2, K2 + 1):
                if quick and cnt in (1, 65, 129) and abs(sv) != abs(sn): continue
                add("mpz_congruent_2exp_p.sn%d.sv%d.cnt%d" % (sn, sv, cnt), "C02_mpz_2exp.c", e2, {"FN": 7, "SN": "(%d)" % sn, "SV": "(%d)" % sv, "CNT": cnt, "ALIAS": 0}, max(abs(sn), abs(sv)) + cnt // 64 + 8, ["mpz/cong_2exp.c:mpz_congruent_2exp_p"])
    return qs

ASSUMPTIONS = [
 "rounding layers (mpz_{f,c}div_{q,r,qr}, mpz_mod) and the _ui family: the truncating core (mpz_tdiv_qr/tdiv_r, mpn_divrem_1/mpn_mod_1) is a contract stub that checks it receives the original operand values and returns an arbitrary (Q,R) restricted only by consequences of true division (signs, |R|<|D|, |Q|<=|N|, R!=0 => Q<N, at most one leading zero limb); the oracle states the documented relation between truncated and floor/ceiling results, so the claim is 'correct rounding, signs, return value, aliasing and memory behaviour for every possible core result', not correctness of the core's quotient",
 "mpz_tdiv_qr/q/r: mpn_tdiv_qr/mpn_tdiv_q are contract stubs that assert the mpn-level preconditions (sizes, non-zero divisor top limb, operand values, no overlap of outputs with inputs or each other)",
 "power-of-two family and divisible/congruent_2exp: no stubs, all limb values, shift counts from a concrete list around limb boundaries",
 "sizes of the stub's Q and R are concrete shape parameters in the rounding family; DIVIDE_BY_ZERO is modelled by a replacement of errno.c that ends the path and is expected exactly for a zero divisor",
]
MANIFEST = {
 "text": "Bounded model checking of the real division wrapper sources, all limb contents: (1) mpz_fdiv/cdiv q, r, qr and mpz_mod over a contract stub of the truncating core: rounding direction, remainder sign, the q-1/r+d adjustment exactly when required, every permitted aliasing of q/r with n/d (a clobbered divisor is caught at the core call or by the value oracle), DIVIDE_BY_ZERO for d = 0; (2) the twelve _ui functions over contract stubs of mpn_divrem_1/mpn_mod_1: quotient, remainder sign and the returned |r| for every dividend, divisor and core result; (3) mpz_tdiv_qr/q/r over a contract stub of mpn_tdiv_qr: preconditions established, operands copied before outputs are written, signs and normalisation; (4) fdiv/cdiv/tdiv q and r _2exp, divisible_2exp_p, congruent_2exp_p directly against two's-complement shift/mask references.",
 "note": "Bounds: operands <= 2 limbs quick / 3 thorough; shift counts {0,1,63,64,65,128,129} quick, 14 counts thorough. Outside: quotient/remainder correctness of the division cores themselves (mpn_tdiv_qr, sb/dc/inv division, mpn_divrem_1, mpn_mod_1 and the preinv macros): products of full-width limbs are out of reach of SAT/SMT here (DESIGN 1, P8/P10); exact-division and divisibility functions other than the 2exp ones are not yet harnessed.",
 "technique": "bounded symbolic execution of the real C sources with CBMC (SAT), division cores replaced by precondition-checking contract stubs returning arbitrary results constrained by consequences of true division, concrete shapes x symbolic limb contents, native replay of counterexamples",
}
