from vf import Query, reuse
LEVEL = "model_checking"

def queries(ctx):
    quick = ctx.tier == "quick"
    qs = []
    # Every family below compares the result of the call with a reference value that does not depend on which objects are
    # identified; the same families run with ALIAS=0 under their own property, so "aliased call == call with distinct variables"
    # follows from both being equal to the same reference.  Input-only operands are compared with their saved copies after the call.
    qs += reuse(ctx, "C03", r"^mpz_.*alias[1-4]", None, "", exclude=(r"cnt(63|65|127|191)" if quick else None))
    qs += reuse(ctx, "C03", r"^mpn_.*(alias[1-9]|off(0|1|2|-1|-2)$)", None, "", exclude=(r"\.n[34]\." if quick else None))
    qs += reuse(ctx, "C10", r"^mp[zn]_.*alias[1-4]", None, "c10.")
    qs += reuse(ctx, "C01", r"^mp[zn]_.*alias[1-4]", None, "", exclude=(r"mpz_(add|sub)mul" if quick else None))
    qs += reuse(ctx, "C12", r"^mpq_.*alias[1-4]", None, "", exclude=(r"cnt(1|65|130)" if quick else None))
    qs += reuse(ctx, "C02", r"^mpz_.*alias[1-6]", None, "", exclude=(r"cnt(1|63|65|129)|sn-?1\.sd-?1" if quick else None))
    return qs

ASSUMPTIONS = [
 "aliasing is decided per function by running the real code with the output object identified with each permitted subset of the inputs (concrete alias pattern per query, destination allocation minimal so that the aliased run must reallocate while the destination is also a source) and comparing with a reference value that is independent of the alias pattern; the ALIAS=0 queries of the same harness families run under C01/C02/C03/C10/C12",
 "functions with an algebraic core (division wrappers) run over contract stubs that check the original operand values arrive at the core (C02 families)",
 "forbidden combinations (same variable for quotient and remainder) are not generated",
]
MANIFEST = {
 "text": "Bounded model checking of aliasing: for every harnessed mpz/mpq/mpn function and every permitted identification of the output with inputs (w==u, w==v, u==v, all the same; q/r with n/d in all six combinations; mpn overlap offsets), with the destination at minimal allocation, the solver decides over all limb contents that the result equals the alias-independent reference value and that every input-only operand still holds its saved value.",
 "note": "Functions: mpz add, sub, add_ui, sub_ui, ui_sub, neg, abs, set, mul_2exp, mul, mul_ui, mul_si, addmul, submul (u==v), and, ior, xor, com, fdiv/cdiv q/r/qr, mod, tdiv q/r/qr, *_ui division family, *_2exp division family; mpq neg, abs, inv, set, mul_2exp, div_2exp, add, sub, mul, div; mpn add_n, sub_n, add, sub, add_1, sub_1, neg, com, copyi, copyd, lshift, rshift, logic ops, mul_1, addmul_1, submul_1. Bounds as in those families (<= 2 limbs quick, 3-4 thorough). Outside: mpf functions (C13), gcd/powm/root families (their wrappers are covered where C07-C09 families exist).",
 "technique": "bounded symbolic execution of the real C sources with CBMC (SAT), alias pattern concrete per query x symbolic limb contents, alias-independent reference oracle, native replay of counterexamples",
}
