"""C14: translation validation of the x86-64 yasm kernels against the portable C routines (engine E2b: lib/asm2c.py + CBMC),
plus value families re-run under the build-option variants.  See DESIGN.md section 4 C14."""
import os, re, glob
import vf
from vf import Query, G
import asm2c

LEVEL = "translation_validation"
LOGIC = ["and_n", "andn_n", "nand_n", "ior_n", "iorn_n", "nior_n", "xor_n", "xnor_n"]
CLASSES = {"add_n": (1, 0), "sub_n": (1, 1), "karasub": (2, 1), "karaadd": (2, 0), "copyi": (3, 0), "copyd": (3, 1), "com_n": (3, 2),
           "sumdiff_n": (5, 0), "nsumdiff_n": (5, 1), "lshift": (6, 0), "rshift": (6, 1), "lshift1": (7, 0), "rshift1": (7, 1),
           "addadd_n": (8, 0), "addsub_n": (8, 1), "subadd_n": (8, 2)}
for i, nm in enumerate(LOGIC):
    CLASSES[nm] = (4, i)
TWIN = {1: [G + "add_n.c", G + "sub_n.c"], 2: [G + "add_n.c", G + "sub_n.c", G + "add_1.c", G + "sub_1.c", G + "add.c", G + "sub.c", G + "cmp.c", G + "copyi.c", G + "zero.c"],
        3: [G + "copyi.c", G + "copyd.c", G + "com_n.c"], 4: [G + x + ".c" for x in LOGIC], 5: [G + "sumdiff_n.c", G + "nsumdiff_n.c", G + "add_n.c", G + "sub_n.c"], 6: [G + "lshift.c", G + "rshift.c"],
        7: [G + "lshift.c", G + "rshift.c"], 8: [G + "addadd_n.c", G + "addsub_n.c", G + "subadd_n.c", G + "add_n.c", G + "sub_n.c"]}
BASE = ["assert.c", "memory.c", "tal-reent.c", "errno.c"]


def kernels(ctx):
    root = os.path.join(ctx.snap, "mpn", "x86_64")
    out = []
    for dp, dn, fn in os.walk(root):
        for f in sorted(fn):
            if f.endswith(".as"):
                out.append(os.path.relpath(os.path.join(dp, f), ctx.snap))
    return sorted(out)


def queries(ctx):
    quick = ctx.tier == "quick"
    gen = os.path.join(ctx.scratch, "c14gen"); os.makedirs(gen, exist_ok=True)
    qs = []
    ctx.c14 = {"encoded": [], "not_encoded": {}, "no_harness_class": [], "asm_att_not_parsed": 0}
    ctx.c14["asm_att_not_parsed"] = len(glob.glob(os.path.join(ctx.snap, "mpn/x86_64/**/*.asm"), recursive=True))
    for k in kernels(ctx):
        name = os.path.splitext(os.path.basename(k))[0]
        if name not in CLASSES:
            ctx.c14["no_harness_class"].append(k); continue
        try:
            txt = asm2c.preprocess(os.path.join(ctx.snap, k), [ctx.snap, os.path.join(ctx.snap, "mpn")])
            src, st = asm2c.translate(txt, "vk_kernel")
        except asm2c.AsmError as e:
            ctx.c14["not_encoded"][k] = str(e)[:120]; continue
        cp = os.path.join(gen, re.sub(r"[^A-Za-z0-9]", "_", k) + ".c")
        open(cp, "w").write(src)
        ctx.c14["encoded"].append(k)
        cls, sub = CLASSES[name]
        tag = os.path.dirname(k).replace("mpn/x86_64", "").strip("/").replace("/", "_") or "top"
        if cls == 2:
            ns = (8, 9, 10, 11) if quick else tuple(range(8, 20))
        elif quick:
            ns = (1, 2, 3, 4, 5, 7, 9)
        else:
            ns = tuple(range(1, 18))
        ovls = {1: (0, 1, 2), 2: (0,), 3: (0, 1), 4: (0, 1), 5: (0, 1), 6: (0, 1, 2), 7: (0, 1), 8: (0, 1, 2, 3)}[cls]
        vector = bool(re.search(r"\b[xy]mm\d+\b", txt, re.I))          # kernel uses vector registers: its alignment prologue depends on the destination address
        if vector:
            ns = tuple(ns) + ((16, 19) if quick else (20, 32, 35))      # the 16-limb main loop of the vector copy kernels
        for n in ns:
            for ovl, aln in [(v, a) for v in (ovls if (not quick or n in (3, 4, 9, 8)) else ovls[:1]) for a in ((0, 1, 2, 3) if vector and cls == 3 else (0,))]:
                q = Query("%s.%s.n%d.ovl%d" % (tag, name, n, ovl) + (".aln%d" % aln if vector and cls == 3 else ""), "C14_kernel.c", TWIN[cls] + BASE,
                          {"CLS": cls, "SUB": sub, "N": n, "OVL": ovl, "ALN": aln, "VK_SRC": '"%s"' % cp}, unwind=n + 4 if cls == 2 else n + 6, hunwind=330,
                          timeout=300 if quick else 900, funcs=[k + ":mpn_" + name, TWIN[cls][0] + " (portable twin)"], domain="D-FULL")
                q.asm_units = [k]
                qs.append(q)
    return qs


def extra_cov(ctx, done):
    enc = ctx.c14["encoded"]
    progs = sorted(set(q.funcs[0].split(":")[0] for q in done if q.status == "discharged"))
    return {"programs": max(1, len(progs)), "disagreements_checked": sum(1 for q in done if q.status in ("violation", "unconfirmed")),
            "kernels_encoded": enc, "kernels_fully_or_partly_discharged": progs,
            "kernels_not_encoded": ctx.c14["not_encoded"], "kernels_without_harness_class": ctx.c14["no_harness_class"],
            "att_syntax_kernels_not_parsed": ctx.c14["asm_att_not_parsed"]}


ASSUMPTIONS = [
 "the kernel text is preprocessed with `yasm -e` and the tree's yasm_mac.inc, then translated instruction by instruction into C with Intel SDM semantics for the integer core (mov lea add adc sub sbb cmp and or xor test inc dec neg not shl shr sar shld shrd rcl/rcr-by-1 bt push pop ret jcc cmovcc setcc xchg mul imul mulx adcx adox clc stc bsr bsf) and whole-register vector moves (movdqu/movdqa/vmovdqu/vmovdqa/vzeroupper on a 16 x 4-lane register file, alignment of the aligned forms asserted); an unknown mnemonic or operand form makes the kernel 'not encoded'",
 "registers other than the argument registers and the flags start with arbitrary contents; memory is a flat limb array whose every word is symbolic; every access must be 8-byte aligned and inside the array; at ret the callee-saved registers and rsp must be restored (System V ABI)",
 "the portable twin is the real mpn/generic unit compiled by goto-cc (for mpn_karasub / mpn_karaadd the static routine of mpn/generic/mul_n.c, included into the harness); operand length and overlap layout are concrete per query",
 "counterexamples are replayed against the real kernel assembled by yasm from the same file",
]
MANIFEST = {
 "engine": "asm2c",
 "text": "Translation validation of x86-64 assembly kernels: every yasm (Intel syntax) kernel under mpn/x86_64/** whose routine has a harness class (add_n, sub_n, karasub, karaadd, copyi, copyd, com_n, the eight logic operations, sumdiff_n, nsumdiff_n, lshift, rshift, lshift1, rshift1, addadd_n, addsub_n, subadd_n) and whose instructions the translator covers is translated to C from the tree on every run and compared by CBMC with the portable C implementation of the same routine for every enumerated operand length and overlap layout and all limb contents (result limbs, returned carry, nothing written outside the destination, callee-saved registers restored). It does not matter whether the host CPU can execute the kernel.",
 "note": "Bounds: lengths 1..9 (karasub 8..11) quick, 1..17 (8..19) thorough. Outside: the AT&T-syntax .asm kernels (m4; not parsed), kernels using SSE/AVX arithmetic (anything beyond whole-register moves) or other instructions the translator lacks (listed per run as not encoded), kernel classes without a harness (mul_1/addmul_1/mul_basecase/redc_1/divexact..., listed per run), the fat dispatcher, the per-CPU tuning tables and the --enable-alloca/--enable-assert build variants (not checked by this check).",
 "technique": "own x86-64 (yasm/Intel syntax) to C translator with ISA semantics regenerated from the tree on every run, bounded symbolic execution of translation and portable C twin with CBMC (SAT) for all limb contents at concrete lengths, native replay against the yasm-assembled real kernel",
}
