from vf import Query, MPZ_BASE, G, MPN_LIN
LEVEL = "model_checking"
LOGIC = [G + x + ".c" for x in ("and_n", "andn_n", "ior_n", "iorn_n", "nand_n", "nior_n", "xor_n", "xnor_n", "popcount", "hamdist", "scan0", "scan1")]

def queries(ctx):
    quick = ctx.tier == "quick"
    qs = []
    def add(name, h, units, defs, unwind, funcs, timeout=240, **kw):
        if not quick: timeout = 900
        qs.append(Query(name, h, units, defs, unwind=unwind, funcs=funcs, timeout=timeout, **kw))
    base = MPN_LIN + LOGIC + MPZ_BASE + ["tal-reent.c"]
    K = 2 if quick else 3
    for fn, nm in ((0, "and"), (1, "ior"), (2, "xor")):
        Kf = K if quick else (4 if fn < 3 else 3)
        for su in range(-K, K + 1):
            for sv in range(-K, K + 1):
                for al in range(5):
                    if al >= 3 and sv != su:
                        continue
                    need = max(abs(su), abs(sv)) + 1
                    for aw in (sorted(set([1, need])) if al in (0, 3) else [0]):
                        add("mpz_%s.su%d.sv%d.alias%d.aw%d" % (nm, su, sv, al, aw), "C10_mpz_logic.c", ["mpz/%s.c" % nm] + base,
                            {"SU": "(%d)" % su, "SV": "(%d)" % sv, "ALIAS": al, "AW": max(1, aw), "FN": fn}, max(abs(su), abs(sv)) + 4, ["mpz/%s.c:mpz_%s" % (nm, nm)])
    K = 3 if quick else 4
    for su in range(-K, K + 1):
        for al in (0, 1):
            for aw in (sorted(set([1, abs(su) + 1])) if al == 0 else [0]):
                add("mpz_com.su%d.alias%d.aw%d" % (su, al, aw), "C10_mpz_logic.c", ["mpz/com.c"] + base,
                    {"SU": "(%d)" % su, "SV": "0", "ALIAS": al, "AW": max(1, aw), "FN": 3}, abs(su) + 4, ["mpz/com.c:mpz_com"])
    K = 2 if quick else 3
    def bits(k):
        s = set()
        for l in range(k + 2):
            s.update([64 * l, 64 * l + 1, 64 * l + 63])
        s.add(64 * (k + 3) + 5)
        return sorted(s)
    for fn, nm in ((0, "setbit"), (1, "clrbit"), (2, "combit"), (3, "tstbit")):
        for su in range(-K, K + 1):
            for b in bits(abs(su)):
                for au in ((1, b // 64 + 2) if fn != 3 else (1,)):
                    add("mpz_%s.su%d.bit%d.au%d" % (nm, su, b, au), "C10_mpz_bit.c", ["mpz/%s.c" % nm] + base,
                        {"SU": "(%d)" % su, "BIT": b, "AU": au, "FN": fn}, max(abs(su), b // 64 + 1) + 5, ["mpz/%s.c:mpz_%s" % (nm, nm)])
    for fn, nm in ((0, "scan0"), (1, "scan1")):
        for su in range(-K, K + 1):
            for b in bits(abs(su)):
                add("mpz_%s.su%d.start%d" % (nm, su, b), "C10_mpz_scan.c", ["mpz/%s.c" % nm] + base, {"SU": "(%d)" % su, "START": b, "FN": fn}, abs(su) + 5, ["mpz/%s.c:mpz_%s" % (nm, nm)])
    K = 2 if quick else 3   # popcount: bit-trick vs adder equivalence is SAT-hard beyond 2-3 limbs (n=3: >240 s)
    for su in range(-K, K + 1):
        add("mpz_popcount.su%d" % su, "C10_mpz_scan.c", ["mpz/popcount.c"] + base, {"SU": "(%d)" % su, "FN": 2}, abs(su) + 5, ["mpz/popcount.c:mpz_popcount"])
    K = 2 if quick else 3
    for su in range(-K, K + 1):
        for sv in range(-K, K + 1):
            add("mpz_hamdist.su%d.sv%d" % (su, sv), "C10_mpz_scan.c", ["mpz/hamdist.c"] + base, {"SU": "(%d)" % su, "SV": "(%d)" % sv, "FN": 3}, max(abs(su), abs(sv)) + 5, ["mpz/hamdist.c:mpz_hamdist"])
    K = 4 if quick else 6
    names = ["and_n", "andn_n", "ior_n", "iorn_n", "nand_n", "nior_n", "xor_n", "xnor_n", "com_n", "popcount", "hamdist"]
    for fn, nm in enumerate(names):
        for n in range(1, (K if fn < 9 else (2 if quick else 3)) + 1):
            for al in ((0, 1, 2) if fn < 8 else (0, 1) if fn == 8 else (0,)):
                add("mpn_%s.n%d.alias%d" % (nm, n, al), "C10_mpn_logic.c", LOGIC + [G + "com_n.c"], {"N": n, "FN": fn, "ALIAS": al}, n + 3, [G + nm + ".c:mpn_" + nm])
    # popcount/hamdist main loop works on blocks of four limbs: D-PAT (4-bit selectors per limb) reaches whole blocks, block + tail, two blocks
    for fn, nm in ((9, "popcount"), (10, "hamdist")):
        t = 4 if fn == 9 else 2      # hamdist has two operands: 2-bit selectors (0, B-1, 1, B/2) per limb; measured 235 s at 4 bits for n = 4
        for n in (((4, 5, 8) if fn == 9 else (4, 5)) if quick else (3, 4, 5, 6, 7, 8, 9, 12)):
            qs.append(Query("mpn_%s.n%d.pat%d" % (nm, n, t), "C10_mpn_logic.c", LOGIC + [G + "com_n.c"], {"N": n, "FN": fn, "ALIAS": 0, "PAT": t}, unwind=n + 3, hunwind=18,
                            timeout=300 if quick else 900, funcs=[G + nm + ".c:mpn_" + nm], domain="D-PAT(%d bits/limb)" % t))
    for fn, nm in ((11, "scan0"), (12, "scan1")):
        for n in range(1, K + 1):
            for st in sorted(set([0, 1, 63, 64 * (n - 1), 64 * (n - 1) + 63, 64 * (n // 2) + 7])):
                add("mpn_%s.n%d.start%d" % (nm, n, st), "C10_mpn_logic.c", LOGIC, {"N": n, "FN": fn, "ALIAS": 0, "START": st}, n + 3, [G + nm + ".c:mpn_" + nm])
    return qs

MANIFEST = {
 "text": "Bounded model checking of the real mpz/mpn bitwise sources against a fixed-width two's-complement reference: the solver decides equality for all limb contents for every enumerated operand-size/sign/alias/allocation shape; bit indices and scan start positions are enumerated concretely around every limb boundary and far beyond the operand. This property is the one best matched to SAT: the code is pure bit logic.",
 "note": "Bounds: mpz operands <= 2 limbs quick / 3-4 thorough, mpn n <= 4 / 6 (mpn_popcount/mpn_hamdist all values n <= 2 / 3, plus domain D-PAT - every limb one of the 16 (popcount) or 4 (hamdist) corner values 0, B-1, 1, B/2, ... chosen by a symbolic selector - at n = 4, 5, 8 so that whole four-limb blocks, block + tail and two blocks of the main loop are taken); bit indices {64l, 64l+1, 64l+63 | l <= size+1} plus one far index. A symbolic bit index would make every limb access a symbolic-offset pointer (measured: 2.8M clauses per property), so indices are enumerated, limb contents are symbolic. Trusted: CBMC, __builtin_popcountl/ctzl models, the two's-complement oracle.",
}
