from vf import Query, G
LEVEL = "model_checking"
BASE = ["memory.c", "mpz/realloc.c", "assert.c", "mp_bpl.c", "errno.c", "mpz/clear.c"]

def queries(ctx):
    quick = ctx.tier == "quick"
    qs = []
    def add(name, h, units, defs, unwind, funcs, timeout=300, **kw):
        qs.append(Query(name, h, units, defs, unwind=unwind, funcs=funcs, timeout=timeout if quick else 1500, **kw))
    # (size, nail) pairs: byte/limb sized words, partial top byte, single-bit words, words wider than a limb
    sn = [(1, 0), (1, 1), (1, 7), (2, 0), (2, 3), (2, 15), (3, 0), (4, 0), (4, 31), (8, 0), (8, 1), (8, 63), (9, 0), (16, 0)]
    if not quick:
        sn += [(1, 4), (2, 8), (3, 5), (4, 7), (5, 0), (7, 2), (8, 8), (8, 32), (9, 7), (16, 64)]
    for size, nail in sn:
        numb = 8 * size - nail
        for zs in ((1, 2) if quick else (-1, 1, 2, 3)):
            maxc = (64 * abs(zs) + numb - 1) // numb
            if maxc > (64 if quick else 130):
                continue
            for order in (1, -1):
                if order == 1 and maxc * size > 300:
                    continue        # measured: symbolic start offset over a > 300 byte buffer runs out of the 3.5 GB budget
                for endian in (1, 0, -1):
                    for off in ((0, 3) if (size == 8 and nail == 0) else (0,) if quick else (0, 1)):
                        add("mpz_export.size%d.nail%d.zs%d.order%d.endian%d.off%d" % (size, nail, zs, order, endian, off), "C17_export.c",
                            ["mpz/export.c"] + BASE, {"SIZE": size, "NAIL": nail, "ZS": "(%d)" % zs, "ORDER": "(%d)" % order, "ENDIAN": "(%d)" % endian, "OFF": off},
                            max(maxc * size, 8 * abs(zs)) + 40, ["mpz/export.c:mpz_export"])
    add("mpz_export.zero", "C17_export.c", ["mpz/export.c"] + BASE, {"SIZE": 4, "NAIL": 0, "ZS": 0, "ORDER": 1, "ENDIAN": 1, "OFF": 0}, 60, ["mpz/export.c:mpz_export"])
    for size, nail in sn:
        numb = 8 * size - nail
        for count in ((1, 2, 3) if quick else (1, 2, 3, 5)):
            if count * numb > (130 if quick else 260) and count > 1:
                continue
            for order in (1, -1):
                for endian in (1, 0, -1):
                    for off in ((0, 3) if (size == 8 and nail == 0) else (0,)):
                        for ds in ((0,) if quick else (0, 3)):
                            add("mpz_import.size%d.nail%d.count%d.order%d.endian%d.off%d.ds%d" % (size, nail, count, order, endian, off, ds), "C17_import.c",
                                ["mpz/import.c"] + BASE, {"SIZE": size, "NAIL": nail, "COUNT": count, "ORDER": "(%d)" % order, "ENDIAN": "(%d)" % endian, "OFF": off, "DS": ds},
                                count * size + 40, ["mpz/import.c:mpz_import"])
    ru = ["mpz/out_raw.c", "mpz/inp_raw.c", "mpz/set_ui.c", G + "copyi.c", "tal-reent.c"] + BASE
    ud = ["-Dfwrite=vf_fwrite", "-Dfread=vf_fread"]
    st = ["fwrite/fread -> stream stub over a byte array with a symbolic fault position (real units compiled with -Dfwrite=vf_fwrite -Dfread=vf_fread)"]
    K = 2 if quick else 3
    for zs in range(-K, K + 1):
        add("mpz_out_raw.zs%d" % zs, "C17_raw.c", ru, {"FN": 0, "ZS": "(%d)" % zs}, 8 * K + 30, ["mpz/out_raw.c:mpz_out_raw", "mpz/out_raw.c:mpz_out_raw_m"], unit_defs=ud, stubs=st)
        for ds in (0, -2):
            add("mpz_raw_roundtrip.zs%d.ds%d" % (zs, ds), "C17_raw.c", ru, {"FN": 2, "ZS": "(%d)" % zs, "DS": "(%d)" % ds}, 8 * K + 30, ["mpz/out_raw.c:mpz_out_raw", "mpz/inp_raw.c:mpz_inp_raw"], unit_defs=ud, stubs=st)
    for maxb in ((9, 16) if quick else (9, 16, 24)):
        for ds in (0, 1, -3):
            add("mpz_inp_raw.maxb%d.ds%d" % (maxb, ds), "C17_raw.c", ru, {"FN": 1, "MAXB": maxb, "DS": "(%d)" % ds}, maxb + 30, ["mpz/inp_raw.c:mpz_inp_raw", "mpz/inp_raw.c:mpz_inp_raw_p", "mpz/inp_raw.c:mpz_inp_raw_m"], unit_defs=ud, stubs=st, timeout=600)
    return qs

ASSUMPTIONS = [
 "mpz_export: the word count is data dependent and stays symbolic (bounded by MAXC = ceil(64*limbs/numb)); buffer placed at a concrete offset OFF in a 16-byte aligned array pre-filled with a sentinel",
 "mpz_import: count concrete per query, all buffer bytes symbolic, destination holds stale content",
 "stdio: fwrite/fread of the real units are redirected (-Dfwrite=vf_fwrite -Dfread=vf_fread) to a byte-array stream with a symbolic fault position (writes accepted up to `acc` bytes, reads available up to `avail` bytes; partial transfers happen before the failure is reported)",
 "mpz_inp_raw: announced byte counts above MAXB (9, 16; 24 thorough) are cut (assumed away): the allocation request they would cause is outside the harness bound",
 "recording allocator: realloc/free contract and live-block count asserted",
]
MANIFEST = {
 "text": "Bounded model checking of the real mpz_export, mpz_import, mpz_out_raw and mpz_inp_raw sources: export is compared byte for byte with a reference bit-slice model (count, nail bits zero, untouched bytes outside the documented range) for all limb contents; import with the sum of the words for all byte contents (so export followed by import is the identity inside the bound); raw output is compared with the documented format and raw input with the big-endian magnitude for all 2^32 headers whose announced length fits the bound, through a stream stub whose fault position (short write / early end of stream at any byte) is a solver variable: any fault gives return 0, no leak, destination still assignable and clearable.",
 "note": "Bounds: word sizes {1,2,3,4,8,9,16} bytes x nail counts incl. partial-byte and 1-bit words (14 pairs quick, 24 thorough), order +-1, endian 1/0/-1, misaligned buffer for limb-sized words, |z| <= 2 limbs (quick) / 3; import count <= 3 (5); raw: |x| <= 2 limbs (3), stream <= 28 bytes. Outside: larger operands; text stream I/O (mp?_out_str/inp_str) is covered by the radix-conversion families of C06 only as far as those reach; gmp_fprintf fault return under C18.",
 "technique": "bounded symbolic execution of the real C sources with CBMC (SAT), stdio replaced by a fault-injecting stream stub with a symbolic fault position, concrete shapes x symbolic bytes/limbs, native replay of counterexamples",
}
