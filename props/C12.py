from vf import Query, G
LEVEL = "model_checking"
BASE = ["memory.c", "mpz/realloc.c", "assert.c", "mp_bpl.c"]
MPQ_S = ["mpq/%s.c" % x for x in ("abs", "neg", "inv", "set", "set_z", "set_si", "set_ui", "set_num", "set_den", "swap", "md_2exp", "get_num", "get_den")]
LIN = [G + x + ".c" for x in ("lshift", "rshift", "copyi", "copyd", "zero", "add_n", "sub_n", "add", "sub", "add_1", "sub_1", "cmp")]
MPZ_S = ["mpz/set.c", "mpz/mul_2exp.c", "mpz/set_ui.c", "mpz/set_si.c", "mpz/init.c", "mpz/clear.c", "mpz/add.c", "mpz/sub.c", "mpz/mul.c", "mpz/swap.c", "mpz/neg.c", "mpz/abs.c"]
MUL = [G + x + ".c" for x in ("mul_1", "addmul_1", "submul_1", "mul_basecase", "mul", "mul_n", "sqr_basecase")]
FNS = ("neg", "abs", "inv", "set", "set_z", "set_si", "set_ui", "set_num", "set_den", "swap", "mul_2exp", "div_2exp", "get_num", "get_den")

def queries(ctx):
    quick = ctx.tier == "quick"
    qs = []
    def add(name, h, units, defs, unwind, funcs, timeout=240, **kw):
        qs.append(Query(name, h, units, defs, unwind=unwind, funcs=funcs, timeout=timeout if quick else 900, **kw))
    K = 2 if quick else 3
    su = MPQ_S + MPZ_S[:2] + LIN[:5] + BASE
    stale = [(0, 1)] if quick else [(0, 1), (2, 2), (-1, 3)]
    for fn, nm in enumerate(FNS):
        src = "mpq/%s.c:mpq_%s" % ("md_2exp" if "2exp" in nm else nm, nm)
        if nm in ("set_z", "set_num", "set_den", "get_num", "get_den"):
            for zs in range(-K, K + 1):
                if nm == "set_den" and zs <= 0:
                    continue
                for dn, dd in (stale + [(2, 2)] if quick else stale):
                    if nm.startswith("get"):
                        if (dn, dd) != (0, 1): continue
                        for sn in (-K, 0, 1):
                            add("mpq_%s.sn%d.sd%d.zs%d" % (nm, sn, K if sn else 1, zs), "C12_mpq_struct.c", su, {"FN": fn, "SN": "(%d)" % sn, "SD": K if sn else 1, "ALIAS": 0, "ZS": "(%d)" % zs}, 2 * K + 8, [src])
                    else:
                        add("mpq_%s.zs%d.dn%d.dd%d" % (nm, zs, dn, dd), "C12_mpq_struct.c", su, {"FN": fn, "SN": 1, "SD": 1, "ALIAS": 0, "ZS": "(%d)" % zs, "DN": "(%d)" % dn, "DD": dd}, 2 * K + 8, [src])
            continue
        if nm in ("set_si", "set_ui"):
            for dn, dd in stale + [(-2, 2)]:
                add("mpq_%s.dn%d.dd%d" % (nm, dn, dd), "C12_mpq_struct.c", su, {"FN": fn, "SN": 1, "SD": 1, "ALIAS": 0, "DN": "(%d)" % dn, "DD": dd}, 2 * K + 8, [src])
            continue
        if "2exp" in nm:
            lows = (("1", "1UL"), ("2", "2UL"), ("t63", "0x8000000000000000UL")) if quick else (("1", "1UL"), ("2", "2UL"), ("t63", "0x8000000000000000UL"), ("t1", "0xa00000000000000eUL"), ("t4", "0xf5a5a5a5a5a5a5f0UL"), ("odd", "0xffffffffffffffffUL"))
            cnts = (0, 1, 64, 65, 130) if quick else (0, 1, 2, 5, 63, 64, 65, 127, 128, 129, 130, 192, 200)
            K2 = 3 if quick else 4
            for sn in range(-K2, K2 + 1):
                for sd in range(1, K2 + 1):
                    if sn == 0 and sd != 1: continue
                    if quick and abs(sn) == 2 and sd == 2 and sn < 0: continue
                    rsz = sd if nm == "mul_2exp" else abs(sn)
                    lsz = abs(sn) if nm == "mul_2exp" else sd
                    if quick and (rsz == 3 or lsz == 3) and not (rsz == 3 and lsz == 1 and sn > 0): continue
                    if not quick and rsz + lsz > 6: continue
                    for zl in range(0, max(1, rsz)):
                        for lown, low in (lows if sn else lows[:1]):
                            if quick and zl == 0 and lown == "t63" and rsz == 2: continue
                            for cnt in cnts:
                                for al in (0, 1):
                                    for dn, dd in (stale if al == 0 else [(0, 1)]):
                                        add("mpq_%s.sn%d.sd%d.zl%d.low%s.cnt%d.alias%d.dn%d.dd%d" % (nm, sn, sd, zl, lown, cnt, al, dn, dd), "C12_mpq_struct.c", su,
                                            {"FN": fn, "SN": "(%d)" % sn, "SD": sd, "ALIAS": al, "CNT": cnt, "ZL": zl, "LOWC": low, "DN": "(%d)" % dn, "DD": dd}, 2 * K2 + 10 + cnt // 64, [src])
            continue
        for sn in range(-K, K + 1):
            for sd in range(1, K + 1):
                if sn == 0 and sd != 1:
                    continue
                for al in (0, 1):
                    if nm == "swap" and al: continue
                    for dn, dd in (stale if al == 0 else [(0, 1)]):
                        add("mpq_%s.sn%d.sd%d.alias%d.dn%d.dd%d" % (nm, sn, sd, al, dn, dd), "C12_mpq_struct.c", su,
                            {"FN": fn, "SN": "(%d)" % sn, "SD": sd, "ALIAS": al, "DN": "(%d)" % dn, "DD": dd}, 2 * K + 10, [src])
    # arithmetic on the small-value domain; the mpz callees are specification stubs (compositional, DESIGN R6)
    au = ["mpq/aors.c", "mpq/mul.c", "mpq/div.c", "mpq/canonicalize.c", "mpq/clear.c", "tal-reent.c", "mpz/set.c", "mpz/init.c", "mpz/clear.c"] + LIN[2:4] + BASE
    st = ["mpz_gcd -> specification stub (Euclid on values < 2^(2*BITS+2), asserts operand bound)", "mpz_divexact_gcd -> specification stub (asserts divisor positive and exact divisibility)",
          "mpz_mul/mpz_add/mpz_sub -> specification stubs on one-limb values (real functions: C01/C03)"]
    for bits in ((3,) if quick else (3, 5)):
        for fn, nm in enumerate(("add", "sub", "mul", "div", "canonicalize")):
            src = ["mpq/%s.c:mpq_%s" % ("aors" if fn < 2 else nm, nm)]
            if fn == 4:
                for sa in (-1, 0, 1):
                    for sda in (-1, 0, 1):
                        add("mpq_canonicalize.bits%d.sa%d.sda%d" % (bits, sa, sda), "C12_mpq_arith.c", au, {"FN": 4, "ALIAS": 0, "BITS": bits, "SA": "(%d)" % sa, "SDA": "(%d)" % sda}, 3 * bits + 8, src, domain="D-SMALL", stubs=st)
                continue
            for al in range(5):
                for sa in (-1, 0, 1):
                    for sb in ((-1, 0, 1) if al < 3 else (sa,)):
                        for dn, dd in ([(0, 1), (2, 2)] if al in (0, 3) else [(0, 1)]):
                            add("mpq_%s.bits%d.alias%d.sa%d.sb%d.dn%d.dd%d" % (nm, bits, al, sa, sb, dn, dd), "C12_mpq_arith.c", au,
                                {"FN": fn, "ALIAS": al, "BITS": bits, "SA": "(%d)" % sa, "SB": "(%d)" % sb, "DN": "(%d)" % dn, "DD": dd},
                                3 * bits + 8, src, timeout=300 if quick else 1500, domain="D-SMALL", stubs=st)
    return qs

ASSUMPTIONS = [
 "mpq structural functions: objects built directly in an arbitrary well-formed state (allocation minimal, limbs beyond |size| arbitrary); the destination holds arbitrary stale content of the listed sizes",
 "mpq_mul_2exp/div_2exp: the operand that is shifted right has ZL zero low limbs and a lowest non-zero limb from a table of constants {1, 2, 2^63 (quick); + 0xa..e, 0xf5..f0, 2^64-1 (thorough)} so that the data-dependent shift split is concrete; every other limb is symbolic; inputs canonical (numerator and denominator not both even)",
 "mpq_add/sub/mul/div/canonicalize: |numerator|, denominator < 2^BITS (BITS 3 quick; 3 and 5 thorough), inputs canonical; signs/zero-ness concrete per query; mpz_gcd, mpz_divexact_gcd, mpz_mul, mpz_add, mpz_sub are specification stubs that read all sources before writing the destination and assert their preconditions",
 "recording allocator installed in the real __gmp_*_func pointers: every block has a concrete size chosen by case split on the request, realloc/free assert block start + exact current size, live-block counter must return to zero",
]
MANIFEST = {
 "text": "Bounded model checking of the real mpq sources. Structural functions (neg, abs, inv, set, set_z, set_si, set_ui, set_num, set_den, swap, get_num, get_den, mul_2exp, div_2exp): for every enumerated size/sign/alias/stale-destination shape the solver decides 'result is exactly the canonical value, well formed, source unchanged' over all limb contents (all C operand values for set_si/set_ui). Arithmetic (add, sub, mul, div, canonicalize): the real mpq layer is executed with its mpz callees replaced by precondition-checking specification stubs on a small-value domain; the solver decides that the result is the canonical reduced fraction for every pair of canonical operands in the domain, every alias pattern, and that DIVIDE_BY_ZERO is raised exactly where documented; allocator contract and no-leak are asserted in the same queries.",
 "note": "Bounds: structural <= 2 limbs quick (3 for the 2exp functions) / 3-4 thorough; shift counts {0,1,64,65,130} quick, 13 counts thorough; arithmetic |num|,den < 8 (quick) / < 32 (thorough). Outside: coprimality of results for larger values (that is gcd correctness, C07), mpq_set_d/mpq_set_f (C11/C13 families), mpq string I/O (C06/C17). Found and fixed on the pinned tree: the in-place copy direction in mord_2exp (known_findings.txt).",
 "technique": "bounded symbolic execution of the real C sources with CBMC (SAT), concrete shapes x symbolic limb contents, compositional specification stubs for mpz callees of the mpq arithmetic layer, native replay of counterexamples",
}
