from vf import Query, G
LEVEL = "model_checking"
BASE = ["memory.c", "mpz/realloc.c", "assert.c", "mp_bpl.c", "tal-reent.c", "mpz/clear.c", "mpz/init.c", "mpz/set.c", "mpz/set_ui.c"]
LIN = [G + x + ".c" for x in ("cmp", "copyi", "copyd", "zero", "lshift", "rshift", "add_1", "sub_1", "add_n", "sub_n", "add", "sub", "com_n", "neg_n")]

def queries(ctx):
    quick = ctx.tier == "quick"
    qs = []
    def add(name, h, units, defs, unwind, funcs, timeout=600, **kw):
        qs.append(Query(name, h, units, defs, unwind=unwind, funcs=funcs, timeout=timeout if quick else 1800, **kw))
    ru = ["mpz/remove.c", "mpz/cmp_ui.c", "mpz/scan1.c", "mpz/cfdiv_q_2exp.c", G + "scan1.c"] + LIN + BASE
    st = ["mpz_mul, mpz_tdiv_qr -> specification stubs on one-limb values < 2^40"]
    for sgn in (-1, 0, 1):
        for flo, fhi in ((2, 2), (3, 3), (4, 12)) + (() if quick else ((13, 40),)):
            for al in (0, 1):
                add("mpz_remove.sgn%d.f%d_%d.alias%d" % (sgn, flo, fhi, al), "C16_remove.c", ru, {"SGN": "(%d)" % sgn, "FLO": flo, "FHI": fhi, "ALIAS": al, "VB": 7 if quick else 10}, 5, ["mpz/remove.c:mpz_remove"], hunwind=16, stubs=st, domain="D-SMALL")
    add("mpz_remove.f1", "C16_remove.c", ru, {"SGN": 1, "FLO": 0, "FHI": 1, "ALIAS": 0, "VB": 6}, 5, ["mpz/remove.c:mpz_remove"], hunwind=16, stubs=st, domain="D-SMALL")
    nu = ["mpz/next_prime_candidate.c", "mpz/nextprime.c", "mpz/cmp_ui.c", "mpz/add_ui.c", "mpz/get_ui.c", "mpz/setbit.c"] + LIN + BASE
    for lo, hi in ((0, 0), (1, 100), (101, 400), (401, 700), (701, 990)):
        add("mpz_next_prime_candidate.n%d_%d" % (lo, hi), "C16_nextprime.c", nu, {"FN": 0, "LO": lo, "HI": hi}, 12, ["mpz/next_prime_candidate.c:mpz_next_prime_candidate"], hunwind=40)
    tu = ["mpz/fac_ui.c", "mpz/2fac_ui.c", "mpz/fib_ui.c", "mpz/mul_2exp.c", "mpn/fib_table.c", "mpn/comb_tables.c"] + LIN + BASE
    for fn, nm, nmax in ((0, "fac_ui", 20), (1, "fib_ui", 93), (3, "2fac_ui", 33)):
        add("mpz_%s.n0_%d" % (nm, nmax), "C16_table.c", tu, {"FN": fn, "NMAX": nmax}, 12, ["mpz/%s.c:mpz_%s" % (nm, nm)], hunwind=nmax + 4)
    return qs

ASSUMPTIONS = [
 "mpz_remove: the real function over specification stubs for mpz_mul and mpz_tdiv_qr on a small-value domain (|op| < 2^7 quick / 2^10 thorough, f in [0,12] / [0,40]); sign of op concrete; DIVIDE_BY_ZERO expected for f <= 1",
 "mpz_next_prime_candidate: every argument n in [0, 990] (the table path of the real code); the sieve / Miller-Rabin path beyond the table is cut by stubs that end the path (asserted unreachable inside this domain); oracle by trial division in 12-bit arithmetic",
 "mpz_fac_ui (n <= 20), mpz_fib_ui (n <= 93), mpz_2fac_ui (odd n <= 33): symbolic n over the table range; the product/doubling code for larger n is cut by stubs asserted unreachable inside the domain",
]
MANIFEST = {
 "text": "Bounded model checking of the real sources on small-argument domains: mpz_remove returns the exact multiplicity and cofactor for every operand/factor pair in the domain, both signs, in place or not, with every temporary cleared; mpz_next_prime_candidate returns for every n <= 990 a prime greater than n with no prime strictly between (table and binary search of the real code against trial division); mpz_fac_ui, mpz_fib_ui, mpz_2fac_ui equal their defining recurrences for every argument whose result fits one limb (every table entry).",
 "note": "Outside: mpz_mfac_uiui, mpz_primorial_ui, mpz_bin_ui, mpz_bin_uiui, mpz_lucnum*_ui, mpz_fib2_ui, arguments beyond the table ranges (multi-limb products), mpz_nextprime beyond 990, and every primality test (mpz_probab_prime_p, mpz_probable_prime_p, mpz_likely_prime_p, mpz_miller_rabin): modular exponentiation is out of reach of the solver (DESIGN 1, R4).",
 "technique": "bounded symbolic execution of the real C sources with CBMC (SAT), symbolic small arguments, specification stubs for mpz callees of mpz_remove, paths outside the stated domain cut by stubs asserted unreachable, native replay of counterexamples",
}
