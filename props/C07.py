from vf import Query, G
LEVEL = "model_checking"
BASE = ["memory.c", "mpz/realloc.c", "assert.c", "mp_bpl.c", "errno.c", "tal-reent.c", "mpz/clear.c", "mp_clz_tab.c"]
LIN = [G + x + ".c" for x in ("cmp", "copyi", "copyd", "zero", "lshift", "rshift", "add_1", "sub_1", "add_n", "sub_n", "add", "sub")]
GU = ["mpz/gcd.c", "mpz/gcd_ui.c", "mpz/lcm.c", "mpz/divexact.c", "mpz/mul.c", G + "gcd_1.c", G + "gcd.c", G + "mul_1.c", G + "mod_1.c", G + "modexact_1c_odd.c"]

def queries(ctx):
    quick = ctx.tier == "quick"
    qs = []
    def add(name, defs, units, funcs, unwind=40, timeout=600, **kw):
        qs.append(Query(name, "C07_small.c", units + LIN + BASE, defs, unwind=unwind, hunwind=60, funcs=funcs, timeout=timeout if quick else 1800, domain="D-SMALL", **kw))
    vb = 6 if quick else 8
    for shu, shv in ((0, 0), (3, 0), (0, 5), (20, 20), (40, 3)):
        add("mpn_gcd_1.shu%d.shv%d" % (shu, shv), {"FN": 0, "VB": vb, "SHU": shu, "SHV": shv}, [G + "gcd_1.c", G + "mod_1.c", G + "modexact_1c_odd.c"], [G + "gcd_1.c:mpn_gcd_1"])
    for su in (-1, 0, 1):
        for sv in (-1, 0, 1):
            for al in (0, 1, 2):
                add("mpz_gcd.su%d.sv%d.alias%d" % (su, sv, al), {"FN": 1, "VB": vb, "SU": "(%d)" % su, "SV": "(%d)" % sv, "ALIAS": al}, GU, ["mpz/gcd.c:mpz_gcd", G + "gcd_1.c:mpn_gcd_1"])
                add("mpz_lcm.su%d.sv%d.alias%d" % (su, sv, al), {"FN": 3, "VB": vb, "SU": "(%d)" % su, "SV": "(%d)" % sv, "ALIAS": al}, GU, ["mpz/lcm.c:mpz_lcm", G + "gcd_1.c:mpn_gcd_1", G + "mul_1.c:mpn_mul_1"])
        for al in (0, 1):
            add("mpz_gcd_ui.su%d.alias%d" % (su, al), {"FN": 2, "VB": vb, "SU": "(%d)" % su, "ALIAS": al}, GU + ["mpz/get_ui.c"], ["mpz/gcd_ui.c:mpz_gcd_ui"])
    JU = ["mpz/jacobi.c", "mpz/kronsz.c", "mpz/kronuz.c", "mpz/kronzs.c", "mpz/kronzu.c", G + "jacobi_base.c", G + "jacobi.c", G + "jacobi_2.c", G + "mod_1.c", G + "modexact_1c_odd.c"]
    for su in (-1, 0, 1):
        for sv in (-1, 0, 1):
          if su != 0 and sv != 0:
              continue      # non-zero/non-zero symbols: the reduction loops of the real code do not finish even on 4-bit operands (measured: > 400 s / > 3.5 GB)
          for kfn, knm in enumerate(("kronecker", "kronecker_si", "kronecker_ui", "si_kronecker", "ui_kronecker")):
            add("mpz_%s.su%d.sv%d" % (knm, su, sv), {"FN": 4, "KFN": kfn, "VB": 4 if quick else 6, "SU": "(%d)" % su, "SV": "(%d)" % sv}, JU, ["mpz/jacobi.c:mpz_jacobi", "mpz/kronsz.c", "mpz/kronuz.c", "mpz/kronzs.c", "mpz/kronzu.c", G + "jacobi_base.c:mpn_jacobi_base"], timeout=400)
    return qs

ASSUMPTIONS = [
 "small-value domain: operands are one-limb values < 2^6 (quick) / 2^8 (thorough), optionally shifted left by 3..40 bits for mpn_gcd_1 to take the zero-stripping and 'u much bigger than v' paths; signs and zero-ness concrete per query; every value in the domain is decided by the solver against Euclid's algorithm in narrow arithmetic",
 "the real mpn_gcd_1, mpz_gcd, mpz_gcd_ui, mpz_lcm (single-limb path incl. mpn_mul_1) run unmodified; destination allocation minimal and the recording allocator active, so the aliased mpz_lcm(r==u) call has to survive a moving reallocation",
 "Kronecker family: only the cases with a zero operand (the documented special values) are decided; non-zero symbols are outside (reduction loops do not finish in the solver even on 4-bit operands)",
]
MANIFEST = {
 "text": "Bounded model checking of the real gcd sources on a small-value domain: mpn_gcd_1, mpz_gcd, mpz_gcd_ui return the non-negative greatest common divisor, and mpz_lcm returns |uv|/g, for every pair of values in the domain, every sign and zero combination and every alias pattern (result object equal to either operand, minimal allocation); the five Kronecker entry points return the documented value when an operand is zero.",
 "note": "Outside: multi-limb gcd (mpn_gcd, hgcd, Lehmer steps), mpz_gcdext/mpn_gcdext and their cofactor bounds, mpz_invert, Jacobi/Kronecker symbols of non-zero operands (incl. mpn_jacobi_2 and mpn_jacobi_base): number-theoretic cores are out of reach of the solver beyond these domains (DESIGN 1, R4).",
 "technique": "bounded symbolic execution of the real C sources with CBMC (SAT) on a small-value domain, Euclid reference in narrow bit-vector arithmetic, recording allocator, native replay of counterexamples",
}
