from vf import Query, G
LEVEL = "model_checking"
BASE = ["memory.c", "mpz/realloc.c", "assert.c", "mp_bpl.c", "errno.c", "tal-reent.c", "mpz/clear.c", "mp_dv_tab.c", "mpn/mp_bases.c"]
LIN = [G + x + ".c" for x in ("cmp", "copyi", "copyd", "zero", "lshift", "rshift", "add_1", "sub_1", "add_n", "sub_n", "add", "sub")]
MUL = [G + x + ".c" for x in ("mul_1", "addmul_1", "submul_1", "mul_basecase", "mul", "mul_n", "sqr_basecase")]

def queries(ctx):
    quick = ctx.tier == "quick"
    qs = []
    def add(name, h, units, defs, unwind, funcs, timeout=300, **kw):
        qs.append(Query(name, h, units, defs, unwind=unwind, funcs=funcs, timeout=timeout if quick else 1500, **kw))
    su = ["mpz/set_str.c"] + BASE
    bases = (0, 2, 8, 10, 16, 36, 37, 62) if quick else [0] + list(range(2, 63))
    for b in bases:
        for ln in ((1, 2, 3, 4) if quick else (1, 2, 3, 4, 5)):
            for ds in ((0,) if ln != 2 else (0, -2)):
                add("mpz_set_str.base%d.len%d.ds%d" % (b, ln, ds), "C06_set_str.c", su, {"BASE": b, "LEN": ln, "DS": "(%d)" % ds}, ln + 6, ["mpz/set_str.c:mpz_set_str"], timeout=600, stubs=["mpn_set_str -> contract stub (asserts >= 1 digit, digit bytes < base; returns the Horner value)", "__ctype_b_loc -> ASCII classification table"])
    gu = ["mpz/get_str.c", G + "get_str.c", G + "divrem_1.c", G + "mul_1.c", "mp_clz_tab.c"] + LIN + BASE
    gb = (2, 4, 8, 16, 32, -16, -2) if quick else (2, 4, 8, 16, 32, -2, -4, -8, -16, -32)
    for b in gb:
        for zs in ((-2, -1, 0, 1, 2) if quick else range(-3, 4)):
            if quick and 64 * abs(zs) // {2: 1, 4: 2, 8: 3, 16: 4, 32: 5}[abs(b)] > 44:
                continue            # > 44 digits: 60-350 s each, thorough tier
            for fn in (0, 1):
                if fn == 1 and zs != 0 and not (not quick and abs(zs) == 1 and abs(b) in (16, 32)):      # quick: NULL-buffer path only for zero (one-limb operands: no verdict in 600 s on the unchanged tree -> thorough tier)
                    continue        # allocation of a data-dependent byte count: measured out of the memory budget beyond one limb / small digit counts
                add("mpz_get_str.base%d.zs%d.fn%d" % (b, zs, fn), "C06_get_str.c", gu, {"BASE": "(%d)" % b, "ZS": "(%d)" % zs, "FN": fn}, 64 * abs(zs) // {2: 1, 4: 2, 8: 3, 16: 4, 32: 5}[abs(b)] + 10, ["mpz/get_str.c:mpz_get_str", G + "get_str.c:mpn_get_str"],
                    hunwind=64 * abs(zs) + 24, timeout=600)
    nb = (3, 10, 36, 37, 62, -10, -36) if quick else [b for b in range(3, 63) if b & (b - 1)] + [-b for b in range(3, 37) if b & (b - 1)]
    for b in nb:
        for zs in (-1, 1):
            add("mpz_get_str.base%d.zs%d.small" % (b, zs), "C06_get_str.c", gu, {"BASE": "(%d)" % b, "ZS": "(%d)" % zs, "FN": 0, "VB": 10}, 24, ["mpz/get_str.c:mpz_get_str", G + "get_str.c:mpn_get_str", G + "get_str.c:mpn_sb_get_str"],
                hunwind=24, timeout=900, domain="D-SMALL")
    return qs

ASSUMPTIONS = [
 "mpz_set_str: every string of LEN (1..4 quick, ..5 thorough) arbitrary non-NUL bytes; the digit converter mpn_set_str is a contract stub that asserts its preconditions (>= 1 digit, digit bytes below the base) and returns the Horner value, so the claim covers the parser: white space, sign, base-0 prefixes, case rules, embedded white space, rejection with -1, no leak on reject paths; glibc's isspace table is modelled by an ASCII classification table",
 "mpz_get_str: power-of-two bases with all limb values; other bases with one-limb values < 2^10 (digit generation is multiplication/division by constants); caller's buffer pre-filled with a sentinel; the NULL-buffer path is run under the recording allocator, which asserts that the returned block is exactly strlen+1 bytes",
]
MANIFEST = {
 "text": "Bounded model checking of the real radix-conversion sources: mpz_set_str accepts exactly the strings of the documented grammar and returns their exact value for every string up to the length bound in bases 0, 2, 8, 10, 16, 36, 37, 62 (every base 2..62 in the thorough tier); mpz_get_str/mpn_get_str produce exactly the digits, sign, alphabet and terminator, without leading zeros and within the documented buffer size, for all values in power-of-two bases and for small values in other bases.",
 "note": "Bounds: strings <= 4 bytes quick / 5 thorough; get_str operands <= 1 limb (base 2/4), 2 limbs (bases 8/16/32) quick, 3 limbs thorough; non power-of-two bases: |x| < 1024. Outside: digit conversion of mpn_set_str itself, mpz_sizeinbase, mpz_out_str/inp_str streams, mpq_set_str, values above the bounds for non power-of-two bases, the divide-and-conquer / precomputed-power regimes (operands of ~100 limbs and more).",
 "technique": "bounded symbolic execution of the real C sources with CBMC (SAT), symbolic strings/limbs with concrete lengths, reference grammar and digit oracles, contract stub for the digit converter under the parser, native replay of counterexamples",
}
