from vf import Query, G
LEVEL = "model_checking"
BASE = ["memory.c", "mpz/realloc.c", "assert.c", "mp_bpl.c", "tal-reent.c", "mpz/clear.c"]
LIN = [G + x + ".c" for x in ("cmp", "copyi", "copyd", "zero")]
WR = ["mpz/root.c", "mpz/nthroot.c", "mpz/rootrem.c", "mpz/sqrt.c", "mpz/sqrtrem.c", "mpz/set.c"]
ST = ["mpn_sqrtrem/mpn_rootrem -> contract stub (operand values and sizes, area separation; arbitrary root of the documented size with non-zero top limb, arbitrary remainder of RS limbs)"]

def queries(ctx):
    quick = ctx.tier == "quick"
    qs = []
    def add(name, defs, funcs, **kw):
        qs.append(Query(name, "C09_wrap.c", WR + LIN + BASE, defs, unwind=10, funcs=funcs, timeout=300 if quick else 900, stubs=ST, **kw))
    K = 3 if quick else 4
    for fn, nm in enumerate(("root", "nthroot", "rootrem", "sqrt", "sqrtrem")):
        for su in range(-K, K + 1):
            for nth in ((0, 1, 2, 3, 5) if fn <= 2 else (2,)):
                if nm == "nthroot" and nth == 0: continue
                for rs in sorted(set([0, 1, abs(su)])):
                    if rs > abs(su): continue
                    if fn in (1, 3) and rs > 1: continue
                    for al in ((0, 1, 2) if fn in (2, 4) else (0, 1)):
                        add("mpz_%s.su%d.nth%d.rs%d.alias%d" % (nm, su, nth, rs, al), {"FN": fn, "SU": "(%d)" % su, "NTH": nth, "RS": rs, "ALIAS": al}, ["mpz/%s.c:mpz_%s" % (nm, nm)])
    su = [G + "sqrtrem.c", G + "perfect_square_p.c", "mpz/perfsqr.c", G + "mod_34lsub1.c", G + "mul_1.c", G + "addmul_1.c", G + "submul_1.c", G + "add_n.c", G + "sub_n.c", G + "sub_1.c", G + "add_1.c", G + "lshift.c", G + "rshift.c", G + "divrem_1.c", G + "mod_1.c", G + "tdiv_qr.c", G + "divrem_2.c", "mp_clz_tab.c", "errno.c"] + LIN + BASE
    for lo, nm in ((0, "0"), ((1 << 32) - 512, "b32"), ((1 << 62) - 512, "b62"), ((1 << 64) - 1024, "top"), ((1 << 63) - 512, "b63")):
        qs.append(Query("sqrt1.%s" % nm, "C09_sqrt_small.c", su, {"LO": "%dUL" % lo, "VB": (7 if quick else 10) if lo == 0 else 10}, unwind=12, funcs=[G + "sqrtrem.c:mpn_sqrtrem", G + "perfect_square_p.c:mpn_perfect_square_p", "mpz/perfsqr.c:mpz_perfect_square_p"], timeout=600, domain="D-SMALL"))
    return qs

ASSUMPTIONS = [
 "wrappers (mpz_root, mpz_nthroot, mpz_rootrem, mpz_sqrt, mpz_sqrtrem): all limb contents, sizes/root index/remainder size/alias pattern concrete; mpn_sqrtrem and mpn_rootrem are contract stubs that assert the mpn-level contract and return an arbitrary root of the documented size with non-zero top limb (a consequence of the operand's top limb being non-zero) and an arbitrary remainder",
 "cores: the real mpn_sqrtrem, mpn_perfect_square_p and mpz_perfect_square_p on one-limb operands in windows of 2^10 consecutive values at 0 (2^7 in the quick tier), 2^32, 2^62, 2^63 and the top of the limb; the oracle squares the returned root (result x result), never the input",
]
MANIFEST = {
 "text": "Bounded model checking of the real root sources: the mpz wrappers establish the mpn contract (operand copied when it aliases the root or remainder, area separation, sizes), give root and remainder the sign of the operand, report exactness exactly when the remainder is zero, raise SQRT_OF_NEGATIVE for even roots of negatives and DIVIDE_BY_ZERO for a zeroth root, for every operand content and every permitted aliasing; mpn_sqrtrem returns floor(sqrt(u)) and u - s^2, and the perfect-square predicates agree with r == 0, for every u in the stated windows.",
 "note": "Bounds: operands <= 3 limbs quick / 4 thorough for the wrappers, root index in {0,1,2,3,5}; core windows of 2^10 values (2^7 at 0 in quick). Outside: mpn_rootrem and multi-limb mpn_sqrtrem values, mpz_perfect_power_p (its trial-division table and root search), operands outside the windows.",
 "technique": "bounded symbolic execution of the real C sources with CBMC (SAT), contract stubs for the mpn cores under the mpz wrappers, windowed small-domain runs of the real one-limb square root, native replay of counterexamples",
}
