#!/bin/sh
# usage: seedimport.sh <ID> : /tmp/seed_<ID>/{patchN.diff,demoN.c*,notesN.md} -> /verif/seeded/<ID>_N/ and confirm in scratch worktree
id=$1
for n in 1 2 3; do
  [ -f /tmp/seed_$id/patch$n.diff ] || continue
  d=/verif/seeded/${id}_$n; mkdir -p $d
  cp /tmp/seed_$id/patch$n.diff $d/patch.diff
  for e in c cc; do [ -f /tmp/seed_$id/demo$n.$e ] && cp /tmp/seed_$id/demo$n.$e $d/demo.$e; done
  [ -f /tmp/seed_$id/notes$n.md ] && cp /tmp/seed_$id/notes$n.md $d/notes.md
  # demos may hardcode the agent's worktree include path; they are compiled with -I<wt>
  /verif/seedconfirm.sh /tmp/wt_seedconfirm $d
done
