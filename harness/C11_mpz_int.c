/* C11 integer side. FN: 0 cmp 1 cmpabs 2 cmp_ui 3 cmp_si 4 cmpabs_ui 5 sgn 6 fits (all six) 7 get_ui/get_si/get_ux/get_sx
   8 set_ui 9 set_si 10 set_ux 11 set_sx.   SU,SV signed sizes, all limb contents + the C operand symbolic */
#include <stdint.h>
#include <limits.h>
#include "vh.h"
#define AB(x) ((x) < 0 ? -(x) : (x))
#define MX(a,b) ((a) > (b) ? (a) : (b))
#ifndef SV
#define SV 0
#endif
#define W (MX (AB (SU), AB (SV)) + 2)
static int tc_sign (const mp_limb_t *t, int w) { int i; if (t[w - 1] >> 63) return -1; for (i = 0; i < w; i++) if (t[i]) return 1; return 0; }
static int sgn_i (long x) { return x > 0 ? 1 : x < 0 ? -1 : 0; }
VF_MAIN_BEGIN
  mpz_t u, v; mp_limb_t tu[W], tv[W], td[W]; int i, got, want; unsigned long ui; long si;
  VF_FIDELITY ();
#if FN <= 7
  vf_mpz_mk (u, MX (1, AB (SU)), SU); vf_tc_from_mpz (tu, W, u);
#else
  vf_mpz_mk (u, AU, SU);
#endif
  ui = in64 (); si = (long) ui;
  for (i = 0; i < W; i++) tv[i] = 0;
#if FN == 0 || FN == 1
  vf_mpz_mk (v, MX (1, AB (SV)), SV); vf_tc_from_mpz (tv, W, v);
  if (FN == 1) { vf_tc_from_mag (tu, W, PTR (u), AB (SU), 0); vf_tc_from_mag (tv, W, PTR (v), AB (SV), 0); }
  got = FN == 0 ? mpz_cmp (u, v) : mpz_cmpabs (u, v);
  vf_tc_sub (td, tu, tv, W); want = tc_sign (td, W);
  CHECK (sgn_i (got) == want, "cmp sign = sign of exact difference");
#elif FN == 2 || FN == 3 || FN == 4
  if (FN == 3) { tv[0] = (mp_limb_t) si; if (si < 0) for (i = 1; i < W; i++) tv[i] = ~0UL; } else tv[0] = ui;
  if (FN == 4) vf_tc_from_mag (tu, W, PTR (u), AB (SU), 0);
  got = FN == 2 ? mpz_cmp_ui (u, ui) : FN == 3 ? mpz_cmp_si (u, si) : mpz_cmpabs_ui (u, ui);
  vf_tc_sub (td, tu, tv, W); want = tc_sign (td, W);
  CHECK (sgn_i (got) == want, "cmp_ui/si sign = sign of exact difference");
#elif FN == 5
  CHECK (mpz_sgn (u) == tc_sign (tu, W), "sgn");
#elif FN == 6
  { /* value as a signed quantity: fits iff in range; decide on the two's complement array */
    int hi0 = 1, hi1 = 1; for (i = 1; i < W; i++) { if (tu[i] != 0) hi0 = 0; if (tu[i] != ~0UL) hi1 = 0; }
    /* nonneg and < 2^64 : hi0 ; negative and >= -2^64: hi1 */
    { int f_ul = hi0, f_sl = (hi0 && tu[0] <= (unsigned long) LONG_MAX) || (hi1 && tu[0] >= (unsigned long) LONG_MIN && (tu[W-1] >> 63));
      int f_ui = hi0 && tu[0] <= UINT_MAX, f_si = (hi0 && tu[0] <= (unsigned long) INT_MAX) || (hi1 && (tu[W-1] >> 63) && (long) tu[0] >= INT_MIN && (long) tu[0] < 0);
      int f_us = hi0 && tu[0] <= USHRT_MAX, f_ss = (hi0 && tu[0] <= (unsigned long) SHRT_MAX) || (hi1 && (tu[W-1] >> 63) && (long) tu[0] >= SHRT_MIN && (long) tu[0] < 0);
      CHECK ((mpz_fits_ulong_p (u) != 0) == f_ul, "fits_ulong"); CHECK ((mpz_fits_slong_p (u) != 0) == f_sl, "fits_slong");
      CHECK ((mpz_fits_uint_p (u) != 0) == f_ui, "fits_uint"); CHECK ((mpz_fits_sint_p (u) != 0) == f_si, "fits_sint");
      CHECK ((mpz_fits_ushort_p (u) != 0) == f_us, "fits_ushort"); CHECK ((mpz_fits_sshort_p (u) != 0) == f_ss, "fits_sshort"); } }
#elif FN == 7
  { mp_limb_t mag0 = AB (SU) ? PTR (u)[0] : 0; long gs = mpz_get_si (u); intmax_t gx = mpz_get_sx (u);
    CHECK (mpz_get_ui (u) == mag0, "get_ui = low limb of |u|"); CHECK (mpz_get_ux (u) == mag0, "get_ux = low limb of |u|");
    if (mpz_fits_slong_p (u)) { CHECK ((mp_limb_t) gs == tu[0], "get_si exact when it fits"); CHECK ((mp_limb_t) gx == tu[0], "get_sx exact when it fits"); }
    else { /* documented: least significant part with the same sign */
      CHECK ((((unsigned long) (gs < 0 ? -(unsigned long) gs : gs)) & LONG_MAX) == (mag0 & LONG_MAX) || gs == LONG_MIN, "get_si low bits of |u|");
      CHECK (gs == 0 || (gs < 0) == (SU < 0), "get_si sign"); } }
#else
  { if (FN == 8) mpz_set_ui (u, ui); else if (FN == 9) mpz_set_si (u, si); else if (FN == 10) mpz_set_ux (u, ui); else mpz_set_sx (u, si);
    CHECK (vf_mpz_wf (u), "result well formed");
    vf_tc_from_mpz (tu, W, u);
    if (FN == 9 || FN == 11) { tv[0] = (mp_limb_t) si; if (si < 0) for (i = 1; i < W; i++) tv[i] = ~0UL; } else tv[0] = ui;
    CHECK (vf_tc_eq (tu, tv, W), "set_* exact"); }
#endif
VF_MAIN_END
