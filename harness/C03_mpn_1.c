/* C03: single-operand mpn functions. FN: 0 add_1 1 sub_1 2 neg 3 com 4 copyi 5 copyd 6 zero 7 cmp 8 zero_p
   ALIAS: 0 separate, 1 in place; for copyi/copyd ALIAS=k>0 means overlapping by offset k (copyi: rp = sp-k, copyd: rp = sp+k) */
#include "vh.h"
VF_MAIN_BEGIN
  mp_limb_t buf[2 * N + 4], u0[N], r[N], v[N], cy, c; int i;
  mp_limb_t *u = buf + N + 1;
  VF_FIDELITY ();
  vf_fill (buf, 2 * N + 4);
  for (i = 0; i < N; i++) u0[i] = u[i];
#if FN == 0 || FN == 1
  { mp_limb_t b = in64 (); mp_limb_t *rp = ALIAS ? u : r; c = b;
    cy = FN == 0 ? mpn_add_1 (rp, u, N, b) : mpn_sub_1 (rp, u, N, b);
    for (i = 0; i < N; i++)
      { vf_u128 s = FN == 0 ? (vf_u128) u0[i] + c : (vf_u128) u0[i] - c;
        CHECK (rp[i] == (mp_limb_t) s, "result limb"); c = (mp_limb_t) (s >> 64) & 1; }
    CHECK (cy == c, "carry/borrow out"); }
#elif FN == 2
  { mp_limb_t *rp = ALIAS ? u : r; int nz = 0; c = 1;
    cy = mpn_neg (rp, u, N);
    for (i = 0; i < N; i++) { mp_limb_t x = ~u0[i] + c; c = (c && x == 0); CHECK (rp[i] == x, "neg limb"); nz |= (u0[i] != 0); }
    CHECK (cy == (mp_limb_t) nz, "neg borrow = operand non-zero"); }
#elif FN == 3
  { mp_limb_t *rp = ALIAS ? u : r; mpn_com_n (rp, u, N);
    for (i = 0; i < N; i++) CHECK (rp[i] == ~u0[i], "com limb"); }
#elif FN == 4
  { mp_limb_t *rp = ALIAS ? u - ALIAS : r; mpn_copyi (rp, u, N);
    for (i = 0; i < N; i++) CHECK (rp[i] == u0[i], "copyi limb"); }
#elif FN == 5
  { mp_limb_t *rp = ALIAS ? u + ALIAS : r; mpn_copyd (rp, u, N);
    for (i = 0; i < N; i++) CHECK (rp[i] == u0[i], "copyd limb"); }
#elif FN == 6
  { mp_limb_t g0 = u[-1], g1 = u[N]; mpn_zero (u, N);
    for (i = 0; i < N; i++) CHECK (u[i] == 0, "zero limb");
    CHECK (u[-1] == g0 && u[N] == g1, "zero: neighbours untouched"); }
#elif FN == 7
  { int got, want = 0; vf_fill (v, N);
    got = mpn_cmp (u, v, N);
    for (i = N - 1; i >= 0; i--) if (u0[i] != v[i]) { want = u0[i] > v[i] ? 1 : -1; break; }
    CHECK ((got > 0) == (want > 0) && (got < 0) == (want < 0), "cmp sign"); }
#elif FN == 8
  { int z = 1; for (i = 0; i < N; i++) if (u0[i]) z = 0;
    CHECK ((mpn_zero_p (u, N) != 0) == (z != 0), "zero_p"); }
#endif
#if FN <= 5
  if (!ALIAS) for (i = 0; i < N; i++) CHECK (u[i] == u0[i], "source unchanged");
#endif
VF_MAIN_END
