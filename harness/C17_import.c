/* C17: mpz_import, all byte contents. COUNT words, SIZE, NAIL, ORDER, ENDIAN, OFF as in C17_export.c; DS: signed size of the stale
   destination (alloc minimal).  Checked: result == sum of the words' numb-bit values (nail bits ignored), non-negative, well formed;
   buffer unchanged; allocator contract. */
#define VF_REC_ALLOC 1
#include "vh.h"
#define AB(x) ((x) < 0 ? -(x) : (x))
#define NUMB (8 * SIZE - NAIL)
#define RN ((COUNT * NUMB + 63) / 64)
#ifndef DS
#define DS 0
#endif
static unsigned char raw[COUNT * SIZE + 32] __attribute__ ((aligned (16)));
VF_MAIN_BEGIN
  mpz_t z; mp_limb_t ref[RN + 2]; unsigned char cp[COUNT * SIZE + 1]; int i, w, j; unsigned char *data = raw + 16 + OFF;
  VF_FIDELITY ();
  vf_mpz_mk (z, AB (DS) ? AB (DS) : 1, DS);
  for (i = 0; i < COUNT * SIZE; i++) { data[i] = (unsigned char) in64 (); cp[i] = data[i]; }
  for (i = 0; i < RN + 2; i++) ref[i] = 0;
  for (w = 0; w < COUNT; w++)
    for (j = 0; j < SIZE; j++)
      { int k = ORDER == 1 ? COUNT - 1 - w : w, nb = NUMB - 8 * j; unsigned long b, pos;
        if (nb <= 0) continue; if (nb > 8) nb = 8;
        b = data[w * SIZE + ((ENDIAN == 1) ? SIZE - 1 - j : j)] & ((1UL << nb) - 1);
        pos = (unsigned long) k * NUMB + 8 * j;
        ref[pos / 64] |= b << (pos % 64);
        if (pos % 64 + nb > 64) ref[pos / 64 + 1] |= b >> (64 - pos % 64); }
  mpz_import (z, COUNT, ORDER, SIZE, ENDIAN, NAIL, data);
  CHECK (vf_mpz_wf (z) && SIZ (z) >= 0, "result well formed and non-negative");
  CHECK (vf_mag_eq (z, ref, RN + 1), "value is the sum of the words (nail bits ignored)");
  for (i = 0; i < COUNT * SIZE; i++) CHECK (data[i] == cp[i], "input buffer unchanged");
  mpz_clear (z); CHECK (vf_live == 0, "no block held after clear");
VF_MAIN_END
