/* C03: three-operand helpers. FN: 0 addadd_n (t=x+y+z) 1 addsub_n (t=x+y-z) 2 subadd_n (t=x-y-z) 3 sumdiff_n 4 nsumdiff_n
   ALIAS bitmask: bit0 t==x, bit1 t==y, bit2 t==z (FN<=2) ; for FN>=3: 0 separate, 1 s==x, 2 s==y, 3 s==x&&d==y, 4 d==x, 5 d==y */
#include "vh.h"
VF_MAIN_BEGIN
  mp_limb_t x[N], y[N], z[N], t[N], d[N], x0[N], y0[N], z0[N]; int i; long ret;
  VF_FIDELITY ();
  vf_fill (x, N); vf_fill (y, N); vf_fill (z, N);
#if FN <= 2
  { mp_limb_t *tp = (ALIAS & 1) ? x : (ALIAS & 2) ? y : (ALIAS & 4) ? z : t;
    mp_limb_t *xp = x, *yp = (ALIAS & 2) ? tp : y, *zp = (ALIAS & 4) ? tp : z; __int128 acc = 0;
    if (ALIAS & 1) xp = tp;
    for (i = 0; i < N; i++) { x0[i] = xp[i]; y0[i] = yp[i]; z0[i] = zp[i]; }
    ret = FN == 0 ? (long) mpn_addadd_n (tp, xp, yp, zp, N) : FN == 1 ? (long) mpn_addsub_n (tp, xp, yp, zp, N) : (long) mpn_subadd_n (tp, xp, yp, zp, N);
    for (i = 0; i < N; i++)
      { acc += FN == 0 ? (__int128) x0[i] + y0[i] + z0[i] : FN == 1 ? (__int128) x0[i] + y0[i] - z0[i] : (__int128) x0[i] - y0[i] - z0[i];
        CHECK (tp[i] == (mp_limb_t) acc, "result limb"); acc >>= 64; }
    if (FN == 0) CHECK (ret == (long) acc, "addadd carry 0..2");
    if (FN == 1) CHECK (ret == (long) acc, "addsub carry -1..1");
    if (FN == 2) CHECK (ret == (long) -acc, "subadd borrow 0..2");
  }
#else
  { mp_limb_t *sp = ALIAS == 1 || ALIAS == 3 ? x : ALIAS == 2 ? y : t;
    mp_limb_t *dp = ALIAS == 3 || ALIAS == 5 ? y : ALIAS == 4 ? x : d; mp_limb_t c = 0, b = 0, nb = 1;
    for (i = 0; i < N; i++) { x0[i] = x[i]; y0[i] = y[i]; }
    ret = FN == 3 ? (long) mpn_sumdiff_n (sp, dp, x, y, N) : (long) mpn_nsumdiff_n (sp, dp, x, y, N);
    for (i = 0; i < N; i++)
      { vf_u128 s = (vf_u128) x0[i] + y0[i] + c; vf_u128 df = (vf_u128) x0[i] - y0[i] - b; mp_limb_t sl = (mp_limb_t) s;
        c = (mp_limb_t) (s >> 64); b = (mp_limb_t) (df >> 64) & 1;
        if (FN == 4) { mp_limb_t q = ~sl + nb; nb = (nb && q == 0); sl = q; }
        CHECK (sp[i] == sl, "sum limb"); CHECK (dp[i] == (mp_limb_t) df, "diff limb"); }
    if (FN == 3) CHECK (ret == (long) (2 * c + b), "sumdiff return 2*carry+borrow");
  }
#endif
VF_MAIN_END
