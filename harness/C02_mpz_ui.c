/* C02/C05: the _ui division family over contract stubs for mpn_divrem_1 / mpn_mod_1, D-FULL (dividend limbs, divisor and the
   core's (Q,R) all symbolic).  FN = 4*round + kind, round 0 fdiv 1 cdiv 2 tdiv, kind 0 q_ui 1 r_ui 2 qr_ui 3 ui (value only).
   Stub facts (all follow from true division): R < d, Q <= N, Q has at most one leading zero limb, R != 0 => Q < N, d == 1 => R == 0.
   Oracle: floor: n<0 and R!=0 -> q=-(Q+1), r=d-R else q=sign*Q, r=R (r >= 0); ceil: n>0 and R!=0 -> q=Q+1, r=-(d-R) else q=sign*Q,
   r=-R (r <= 0); trunc: q=sign*Q, r=sign*R; return value |r|.  ALIAS 0 none 1 q==n 2 r==n (qr: 1 q==n, 2 r==n). */
#define VF_OWN_ERRNO 1
#define VF_REC_ALLOC 1
#include "vh.h"
#define AB(x) ((x) < 0 ? -(x) : (x))
#define MX(a,b) ((a) > (b) ? (a) : (b))
#define NN AB (SN)
#define W (NN + 2)
#define RND (FN / 4)
#define KIND (FN % 4)
static mp_limb_t N0[W], Qm[W], Rv, Dv; static int stub_calls = 0;
static int mag_lt (const mp_limb_t *a, const mp_limb_t *b) { int i; for (i = W - 1; i >= 0; i--) if (a[i] != b[i]) return a[i] < b[i]; return 0; }
mp_limb_t mpn_divrem_1 (mp_ptr qp, mp_size_t qxn, mp_srcptr np, mp_size_t nn, mp_limb_t d)
{ long i; stub_calls++;
  CHECK (qxn == 0 && nn == NN && nn >= 1, "mpn_divrem_1: sizes"); CHECK (d == Dv && d != 0, "mpn_divrem_1: divisor");
  for (i = 0; i < NN; i++) CHECK (np[i] == N0[i], "mpn_divrem_1 receives the original dividend limbs");
  for (i = 0; i < NN; i++) qp[i] = Qm[i];
  return Rv; }
mp_limb_t mpn_mod_1 (mp_srcptr np, mp_size_t nn, mp_limb_t d)
{ long i; stub_calls++;
  CHECK (nn == NN && nn >= 1, "mpn_mod_1: sizes"); CHECK (d == Dv && d != 0, "mpn_mod_1: divisor");
  for (i = 0; i < NN; i++) CHECK (np[i] == N0[i], "mpn_mod_1 receives the original dividend limbs");
  return Rv; }
VF_MAIN_BEGIN
  mpz_t n, q, r; mpz_ptr qp = q, rp = r; mp_limb_t eq[W], one[W], t[W]; int i, adj, qneg, rneg; unsigned long ret = 0, er;
  VF_FIDELITY ();
  vf_mpz_mk (n, MX (1, NN), SN); vf_mag_get (N0, W, n);
  Dv = in64 (); Rv = in64 ();
  for (i = 0; i < W; i++) { Qm[i] = i < NN ? in64 () : 0; one[i] = i == 0; }
  if (ZD) ASSUME (Dv == 0); else ASSUME (Dv != 0);
  ASSUME (ZD || Rv < Dv); ASSUME (!mag_lt (N0, Qm)); if (Rv != 0) ASSUME (mag_lt (Qm, N0)); if (Dv == 1) ASSUME (Rv == 0);
  if (NN == 0) { ASSUME (Rv == 0); }
  if (NN >= 2) ASSUME (Qm[NN - 1] != 0 || Qm[NN - 2] != 0);      /* N >= B^(nn-1), d < B  =>  Q >= B^(nn-2) */
  if (ZD) vf_expect_exc = 1;
  vf_mpz_mk (q, 1 + AQ, 0); vf_mpz_mk (r, 1 + AQ, 0);
  if (ALIAS == 1) { if (KIND == 1) rp = n; else qp = n; } if (ALIAS == 2) rp = n;
  switch (FN) {
    case 0: ret = mpz_fdiv_q_ui (qp, n, Dv); break; case 1: ret = mpz_fdiv_r_ui (rp, n, Dv); break; case 2: ret = mpz_fdiv_qr_ui (qp, rp, n, Dv); break; case 3: ret = mpz_fdiv_ui (n, Dv); break;
    case 4: ret = mpz_cdiv_q_ui (qp, n, Dv); break; case 5: ret = mpz_cdiv_r_ui (rp, n, Dv); break; case 6: ret = mpz_cdiv_qr_ui (qp, rp, n, Dv); break; case 7: ret = mpz_cdiv_ui (n, Dv); break;
    case 8: ret = mpz_tdiv_q_ui (qp, n, Dv); break; case 9: ret = mpz_tdiv_r_ui (rp, n, Dv); break; case 10: ret = mpz_tdiv_qr_ui (qp, rp, n, Dv); break; case 11: ret = mpz_tdiv_ui (n, Dv); break; }
  VF_NO_EXC_EXPECTED ();
  if (NN == 0) { for (i = 0; i < W; i++) Qm[i] = 0; Rv = 0; }
  adj = Rv != 0 && (RND == 0 ? SN < 0 : RND == 1 ? SN > 0 : 0);
  for (i = 0; i < W; i++) eq[i] = Qm[i]; if (adj) vf_tc_add (eq, Qm, one, W);
  er = adj ? Dv - Rv : Rv; qneg = SN < 0; rneg = RND == 0 ? 0 : RND == 1 ? 1 : SN < 0;
  CHECK (ret == er, "return value is |r|");
  if (KIND == 0 || KIND == 2) { CHECK (vf_mpz_wf (qp), "quotient well formed"); CHECK (vf_mag_eq (qp, eq, W), "quotient magnitude with the documented rounding");
                                CHECK (SIZ (qp) == 0 || (SIZ (qp) < 0) == qneg, "quotient sign"); }
  if (KIND == 1 || KIND == 2) { CHECK (vf_mpz_wf (rp), "remainder well formed"); CHECK (er == 0 ? SIZ (rp) == 0 : (AB (SIZ (rp)) == 1 && PTR (rp)[0] == er), "remainder magnitude");
                                CHECK (SIZ (rp) == 0 || (SIZ (rp) < 0) == rneg, "remainder sign as documented"); }
  if (qp != n && rp != n) CHECK (SIZ (n) == SN && vf_mag_eq (n, N0, W), "dividend unchanged");
  mpz_clear (n); mpz_clear (q); mpz_clear (r); CHECK (vf_live == 0, "no block held after clearing every object");
VF_MAIN_END
