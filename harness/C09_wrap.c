/* C09/C05: the mpz root wrappers over contract stubs for mpn_sqrtrem / mpn_rootrem, D-FULL.
   FN 0 mpz_root 1 mpz_nthroot 2 mpz_rootrem 3 mpz_sqrt 4 mpz_sqrtrem
   SU signed size of u; NTH (root functions); RS size of the core's remainder (0 = exact); ALIAS 0 none 1 root==u 2 rem==u (rootrem/sqrtrem)
   The stubs check the mpn-level contract the wrapper must establish (operand values, sizes, root area separate from the operand,
   remainder area identical to the operand or separate) and return an arbitrary root S of the documented size with non-zero top
   limb and an arbitrary remainder R of RS limbs.  Oracle: root = sign(u) S (odd NTH) , remainder = sign(u) R, exactness flag
   <=> R == 0, SQRT_OF_NEGATIVE for even roots of negatives, DIVIDE_BY_ZERO for NTH == 0. */
#define VF_OWN_ERRNO 1
#define VF_REC_ALLOC 1
#include "vh.h"
#define AB(x) ((x) < 0 ? -(x) : (x))
#define MX(a,b) ((a) > (b) ? (a) : (b))
#define UN AB (SU)
#ifndef NTH
#define NTH 2
#endif
#define K (FN >= 3 ? 2 : NTH)
#define SN (UN == 0 || K == 0 ? 0 : (UN - 1) / K + 1)
#define W (UN + 2)
static mp_limb_t U0[W], Sm[W], Rm[W]; static int calls = 0;
#ifdef REPLAY
static int disjoint (mp_srcptr p, long pn, mp_srcptr q, long qn) { return p + pn <= q || q + qn <= p; }
#else
static int disjoint (mp_srcptr p, long pn, mp_srcptr q, long qn) { return __CPROVER_POINTER_OBJECT (p) != __CPROVER_POINTER_OBJECT (q) || p + pn <= q || q + qn <= p; }
#endif
static mp_size_t core (mp_ptr sp, mp_ptr rp, mp_srcptr np, mp_size_t nn)
{ long i; calls++;
  CHECK (nn == UN && nn >= 1, "core: operand size"); for (i = 0; i < UN; i++) CHECK (np[i] == U0[i], "core receives the original operand limbs");
  CHECK (disjoint (sp, SN, np, nn), "root area does not overlap the operand");
  if (rp) CHECK (rp == np || disjoint (rp, nn, np, nn), "remainder area identical to the operand or separate");
  if (rp) CHECK (disjoint (rp, nn, sp, SN), "remainder area does not overlap the root area");
  for (i = 0; i < SN; i++) sp[i] = Sm[i];
  if (rp) for (i = 0; i < RS; i++) rp[i] = Rm[i];
  return RS; }
mp_size_t mpn_sqrtrem (mp_ptr sp, mp_ptr rp, mp_srcptr np, mp_size_t nn) { return core (sp, rp, np, nn); }
mp_size_t mpn_rootrem (mp_ptr sp, mp_ptr rp, mp_srcptr np, mp_size_t nn, mp_limb_t k) { CHECK (k == NTH && k >= 2, "core: root index"); return core (sp, rp, np, nn); }
VF_MAIN_BEGIN
  mpz_t u, root, rem; mpz_ptr rtp = root, rmp = rem; int i, ret = -7, wantrem = (FN == 2 || FN == 4), neg = SU < 0;
  VF_FIDELITY ();
  vf_mpz_mk (u, MX (1, UN), SU); vf_mag_get (U0, W, u);
  for (i = 0; i < W; i++) { Sm[i] = i < SN ? in64 () : 0; Rm[i] = i < RS ? in64 () : 0; }
  if (SN) ASSUME (Sm[SN - 1] != 0); if (RS) ASSUME (Rm[RS - 1] != 0);
  vf_mpz_mk (root, 1, 0); vf_mpz_mk (rem, 1, 0);
  if (ALIAS == 1) rtp = u; if (ALIAS == 2) rmp = u;
  if (neg && (K % 2 == 0) && K != 0) vf_expect_exc = 2;
  if (FN <= 2 && NTH == 0) vf_expect_exc = neg ? 3 : 1;
  switch (FN) { case 0: ret = mpz_root (rtp, u, NTH); break; case 1: mpz_nthroot (rtp, u, NTH); break; case 2: mpz_rootrem (rtp, rmp, u, NTH); break;
                case 3: mpz_sqrt (rtp, u); break; case 4: mpz_sqrtrem (rtp, rmp, u); break; }
  VF_NO_EXC_EXPECTED ();
  if (UN == 0) { CHECK (SIZ (rtp) == 0, "root of zero is zero"); if (wantrem) CHECK (SIZ (rmp) == 0, "remainder of zero is zero"); if (FN == 0) CHECK (ret != 0, "zero is an exact root"); }
  else if (K == 1) { CHECK (vf_mpz_wf (rtp) && SIZ (rtp) == SU && vf_mag_eq (rtp, U0, W), "first root is the operand"); if (wantrem) CHECK (SIZ (rmp) == 0, "no remainder"); if (FN == 0) CHECK (ret != 0, "exact"); }
  else { CHECK (calls == 1, "the core is used once");
         CHECK (vf_mpz_wf (rtp) && vf_mag_eq (rtp, Sm, W), "root magnitude from the core, well formed");
         CHECK ((SIZ (rtp) < 0) == neg, "root has the sign of the operand");
         if (wantrem) { CHECK (vf_mpz_wf (rmp) && vf_mag_eq (rmp, Rm, W), "remainder magnitude from the core, well formed"); CHECK (SIZ (rmp) == 0 || (SIZ (rmp) < 0) == neg, "remainder has the sign of the operand"); }
         if (FN == 0) CHECK ((ret != 0) == (RS == 0), "exactness flag is non-zero exactly when the remainder is zero"); }
  if (rtp != u && rmp != u) CHECK (SIZ (u) == SU && vf_mag_eq (u, U0, W), "operand unchanged");
  mpz_clear (u); mpz_clear (root); mpz_clear (rem); CHECK (vf_live == 0, "no block held");
VF_MAIN_END
