/* C10: mpz_and/ior/xor (FN 0/1/2) and mpz_com (FN 3) vs infinite two's complement.
   SU,SV signed sizes; ALIAS 0 distinct, 1 w==u, 2 w==v, 3 u==v, 4 all same; AW alloc of a distinct w */
#include "vh.h"
#define AB(x) ((x) < 0 ? -(x) : (x))
#define MX(a,b) ((a) > (b) ? (a) : (b))
#define W (MX (AB (SU), AB (SV)) + 2)
VF_MAIN_BEGIN
  mpz_t u, v, w; mpz_ptr up = u, vp = v, wp = w;
  mp_limb_t tu[W], tv[W], tw[W], te[W], u0[AB (SU) + 1], v0[AB (SV) + 1]; int i;
  VF_FIDELITY ();
  vf_mpz_mk (u, MX (1, AB (SU)), SU);
  if (ALIAS == 3 || ALIAS == 4) vp = u; else vf_mpz_mk (v, MX (1, AB (SV)), SV);
  if (ALIAS == 1 || ALIAS == 4) wp = u; else if (ALIAS == 2) wp = v; else vf_mpz_mk (w, AW, 0);
  vf_tc_from_mpz (tu, W, up); vf_tc_from_mpz (tv, W, vp);
  for (i = 0; i < AB (SU); i++) u0[i] = PTR (up)[i];
  for (i = 0; i < AB (SIZ (vp)); i++) v0[i] = PTR (vp)[i];
#if FN == 0
  mpz_and (wp, up, vp); for (i = 0; i < W; i++) te[i] = tu[i] & tv[i];
#elif FN == 1
  mpz_ior (wp, up, vp); for (i = 0; i < W; i++) te[i] = tu[i] | tv[i];
#elif FN == 2
  mpz_xor (wp, up, vp); for (i = 0; i < W; i++) te[i] = tu[i] ^ tv[i];
#else
  mpz_com (wp, up); for (i = 0; i < W; i++) te[i] = ~tu[i];
#endif
  CHECK (vf_mpz_wf (wp), "result well formed");
  CHECK (AB (SIZ (wp)) <= W - 1, "result size bound");
  vf_tc_from_mpz (tw, W, wp);
  CHECK (vf_tc_eq (tw, te, W), "two's complement result");
  if (wp != up) { CHECK (SIZ (up) == SU, "u size unchanged"); for (i = 0; i < AB (SU); i++) CHECK (PTR (up)[i] == u0[i], "u unchanged"); }
  if (wp != vp && FN != 3) { CHECK (vf_mpz_wf (vp), "v wf"); for (i = 0; i < AB (SIZ (vp)); i++) CHECK (PTR (vp)[i] == v0[i], "v unchanged"); }
VF_MAIN_END
