/* C02/C05: mpz_tdiv_qr / mpz_tdiv_q / mpz_tdiv_r (FN 0/1/2) over a contract stub for mpn_tdiv_qr / mpn_tdiv_q, D-FULL.
   The stub checks the mpn-level preconditions the wrapper must establish (nn >= dn >= 1, divisor top limb non-zero, the
   original operand values arrive, output areas do not overlap the inputs or each other) and returns arbitrary Q (nn-dn+1
   limbs, Q <= N, at most one leading zero limb) and R (dn limbs, R < D).  Oracle: quotient = sign(n)sign(d) Q, remainder = sign(n) R, both normalised.
   ALIAS: 0 none 1 q==n 2 q==d 3 r==n 4 r==d 5 q==n,r==d 6 q==d,r==n (single-output functions: 0,1,2). */
#define VF_OWN_ERRNO 1
#define VF_REC_ALLOC 1
#include "vh.h"
#define AB(x) ((x) < 0 ? -(x) : (x))
#define MX(a,b) ((a) > (b) ? (a) : (b))
#define W (MX (AB (SN), AB (SD)) + 2)
#define NN AB (SN)
#define DN AB (SD)
static mp_limb_t N0[W], D0[W], Qm[W], Rm[W]; static int stub_calls = 0;
static int mag_lt (const mp_limb_t *a, const mp_limb_t *b) { int i; for (i = W - 1; i >= 0; i--) if (a[i] != b[i]) return a[i] < b[i]; return 0; }
#ifdef REPLAY
static int disjoint (mp_srcptr p, long pn, mp_srcptr q, long qn) { return p + pn <= q || q + qn <= p; }
#else
static int disjoint (mp_srcptr p, long pn, mp_srcptr q, long qn)
{ return __CPROVER_POINTER_OBJECT (p) != __CPROVER_POINTER_OBJECT (q) || p + pn <= q || q + qn <= p; }
#endif
static void core (mp_ptr qp, mp_ptr rp, mp_srcptr np, mp_size_t nn, mp_srcptr dp, mp_size_t dn)
{ long i; stub_calls++;
  CHECK (nn == NN && dn == DN && nn >= dn && dn >= 1, "mpn_tdiv_qr precondition: nn >= dn >= 1 with the operand sizes");
  CHECK (dp[dn - 1] != 0, "mpn_tdiv_qr precondition: divisor top limb non-zero");
  for (i = 0; i < NN; i++) CHECK (np[i] == N0[i], "core receives the original dividend limbs");
  for (i = 0; i < DN; i++) CHECK (dp[i] == D0[i], "core receives the original divisor limbs");
  CHECK (disjoint (qp, nn - dn + 1, np, nn) && disjoint (qp, nn - dn + 1, dp, dn), "quotient area does not overlap the inputs");
  if (rp) CHECK (disjoint (rp, dn, np, nn) && disjoint (rp, dn, dp, dn) && disjoint (rp, dn, qp, nn - dn + 1), "remainder area does not overlap inputs or quotient");
  for (i = 0; i < NN - DN + 1; i++) qp[i] = Qm[i];
  if (rp) for (i = 0; i < DN; i++) rp[i] = Rm[i]; }
void mpn_tdiv_qr (mp_ptr qp, mp_ptr rp, mp_size_t qxn, mp_srcptr np, mp_size_t nn, mp_srcptr dp, mp_size_t dn)
{ CHECK (qxn == 0, "qxn must be zero"); core (qp, rp, np, nn, dp, dn); }
void mpn_tdiv_q (mp_ptr qp, mp_srcptr np, mp_size_t nn, mp_srcptr dp, mp_size_t dn) { core (qp, 0, np, nn, dp, dn); }
VF_MAIN_BEGIN
  mpz_t n, d, q, r; mpz_ptr qp = q, rp = r; int i, two = FN == 0, wantq = FN != 2, wantr = FN != 1;
  VF_FIDELITY ();
  vf_mpz_mk (n, MX (1, NN), SN); vf_mpz_mk (d, MX (1, DN), SD);
  vf_mag_get (N0, W, n); vf_mag_get (D0, W, d);
  for (i = 0; i < W; i++) { Qm[i] = (NN >= DN && i < NN - DN + 1) ? in64 () : 0; Rm[i] = i < DN ? in64 () : 0; }
  if (SD != 0 && NN >= DN) { ASSUME (mag_lt (Rm, D0)); ASSUME (!mag_lt (N0, Qm));
                             /* N >= B^(nn-1), D < B^dn  =>  Q >= B^(nn-dn-1): at most one leading zero limb */
                             if (NN - DN + 1 >= 2) ASSUME (Qm[NN - DN] != 0 || Qm[NN - DN - 1] != 0); }
  if (SD == 0) vf_expect_exc = 1;
  vf_mpz_mk (q, 1 + AQ, 0); vf_mpz_mk (r, 1 + AQ, 0);
  if (two) { if (ALIAS == 1 || ALIAS == 5) qp = n; if (ALIAS == 2 || ALIAS == 6) qp = d; if (ALIAS == 3 || ALIAS == 6) rp = n; if (ALIAS == 4 || ALIAS == 5) rp = d; }
  else if (wantq) { if (ALIAS == 1) qp = n; if (ALIAS == 2) qp = d; }
  else { if (ALIAS == 1) rp = n; if (ALIAS == 2) rp = d; }
  if (FN == 0) mpz_tdiv_qr (qp, rp, n, d); else if (FN == 1) mpz_tdiv_q (qp, n, d); else mpz_tdiv_r (rp, n, d);
  VF_NO_EXC_EXPECTED ();
  if (NN < DN) { CHECK (stub_calls == 0, "no core call when |n| has fewer limbs than |d|");
                 if (wantq) CHECK (SIZ (qp) == 0, "quotient zero");
                 if (wantr) CHECK (vf_mpz_wf (rp) && SIZ (rp) == SN && vf_mag_eq (rp, N0, W), "remainder is the dividend"); }
  else { CHECK (stub_calls == 1, "the core is used once");
         if (wantq) { CHECK (vf_mpz_wf (qp), "quotient well formed"); CHECK (vf_mag_eq (qp, Qm, W), "quotient magnitude from the core");
                      CHECK (SIZ (qp) == 0 || (SIZ (qp) < 0) == ((SN < 0) != (SD < 0)), "quotient sign"); }
         if (wantr) { CHECK (vf_mpz_wf (rp), "remainder well formed"); CHECK (vf_mag_eq (rp, Rm, W), "remainder magnitude from the core");
                      CHECK (SIZ (rp) == 0 || (SIZ (rp) < 0) == (SN < 0), "remainder has the sign of the dividend"); } }
  if (qp != n && rp != n) CHECK (SIZ (n) == SN && vf_mag_eq (n, N0, W), "dividend unchanged");
  if (qp != d && rp != d) CHECK (SIZ (d) == SD && vf_mag_eq (d, D0, W), "divisor unchanged");
  mpz_clear (n); mpz_clear (d); mpz_clear (q); mpz_clear (r); CHECK (vf_live == 0, "no block held after clearing every object");
VF_MAIN_END
