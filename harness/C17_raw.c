/* C17: mpz_out_raw / mpz_inp_raw against a stream stub with a symbolic fault plan.
   The real units are compiled with -Dfwrite=vf_fwrite -Dfread=vf_fread.
   FN 0: out_raw of x (signed size ZS, all limbs) to a stream that accepts `acc` bytes (symbolic) and then fails
   FN 1: inp_raw from a stream holding `avail` (symbolic) arbitrary bytes; announced size cut at MAXB bytes; DS stale destination
   FN 2: out_raw then inp_raw round trip without faults */
#define VF_REC_ALLOC 1
#define VF_MAXL 6
#include "vh.h"
#define AB(x) ((x) < 0 ? -(x) : (x))
#ifndef ZS
#define ZS 1
#endif
#ifndef DS
#define DS 0
#endif
#ifndef MAXB
#define MAXB (8 * AB (ZS))
#endif
#define SB (MAXB + 12)
static unsigned char st[SB]; static size_t st_pos = 0, st_acc = 0, st_avail = 0; static int st_wfail = 0, st_calls = 0;
size_t vf_fwrite (const void *p, size_t size, size_t n, FILE *fp)
{ size_t i; const unsigned char *c = (const unsigned char *) p; st_calls++;
  CHECK (n == 1, "stub: single item writes"); CHECK (size <= SB, "stub: write size inside harness bound");
  for (i = 0; i < SB; i++) if (i < size && st_pos + i < st_acc && st_pos + i < SB) st[st_pos + i] = c[i];
  if (st_pos + size > st_acc) { st_pos = st_acc; st_wfail = 1; return 0; }
  st_pos += size; return 1; }
size_t vf_fread (void *p, size_t size, size_t n, FILE *fp)
{ size_t i; unsigned char *c = (unsigned char *) p; st_calls++;
  CHECK (n == 1, "stub: single item reads"); CHECK (size <= SB, "stub: read size inside harness bound");
  for (i = 0; i < SB; i++) if (i < size && st_pos + i < st_avail) c[i] = st[st_pos + i];
  if (st_pos + size > st_avail) { st_pos = st_avail; return 0; }
  st_pos += size; return 1; }
VF_MAIN_BEGIN
  mpz_t x, y; mp_limb_t m[AB (ZS) + 2]; int i; size_t ret; FILE *fp = (FILE *) st;
  VF_FIDELITY ();
#if FN == 0 || FN == 2
  { unsigned long bl, nb; long hdr;
    vf_mpz_mk (x, AB (ZS) ? AB (ZS) : 1, ZS);
    for (i = 0; i < AB (ZS) + 2; i++) m[i] = i < AB (ZS) ? PTR (x)[i] : 0;
    st_acc = FN == 2 ? SB : in64 (); st_avail = 0;
    ret = mpz_out_raw (fp, x);
    nb = AB (ZS) == 0 ? 0 : (64UL * (AB (ZS) - 1) + vf_bsr (m[AB (ZS) - 1]) + 8) / 8;
    CHECK (vf_live == 1, "mpz_out_raw released its scratch block on every path");
    CHECK (SIZ (x) == ZS, "operand size unchanged"); for (i = 0; i < AB (ZS); i++) CHECK (PTR (x)[i] == m[i], "operand unchanged");
    if (st_acc >= 4 + nb)
      { CHECK (ret == 4 + nb, "returns the number of bytes written");
        hdr = ZS < 0 ? - (long) nb : (long) nb;
        CHECK (st[0] == (unsigned char) (hdr >> 24) && st[1] == (unsigned char) (hdr >> 16) && st[2] == (unsigned char) (hdr >> 8) && st[3] == (unsigned char) hdr, "4-byte big-endian signed byte count");
        for (i = 0; i < MAXB; i++) if ((unsigned long) i < nb)
          { unsigned long k = nb - 1 - i;     /* byte significance */
            CHECK (st[4 + i] == (unsigned char) (m[k / 8] >> (8 * (k % 8))), "magnitude bytes, most significant first"); }
        CHECK (st_pos == 4 + nb, "exactly 4+bytes written"); }
    else CHECK (ret == 0, "write fault: returns 0"); }
#endif
#if FN == 2
  st_avail = st_pos; st_pos = 0;
  vf_mpz_mk (y, AB (DS) ? AB (DS) : 1, DS);
  { size_t r2 = mpz_inp_raw (y, fp);
    CHECK (r2 == ret, "inp_raw consumes what out_raw wrote");
    CHECK (vf_mpz_wf (y) && SIZ (y) == SIZ (x), "round trip: well formed, same size and sign");
    for (i = 0; i < AB (ZS); i++) CHECK (PTR (y)[i] == m[i], "round trip: same magnitude"); }
#endif
#if FN == 1
  { long cs; unsigned long ab; mp_limb_t ref[MAXB / 8 + 2];
    vf_mpz_mk (x, AB (DS) ? AB (DS) : 1, DS);
    for (i = 0; i < SB; i++) st[i] = (unsigned char) in64 ();
    st_avail = in64 (); ASSUME (st_avail <= SB);
    cs = (long) (int) (((unsigned) st[0] << 24) | ((unsigned) st[1] << 16) | ((unsigned) st[2] << 8) | st[3]);
    ab = cs < 0 ? - (unsigned long) cs : (unsigned long) cs;
    ASSUME (ab <= MAXB);                      /* recorded cut: announced sizes above the harness buffer */
    ret = mpz_inp_raw (x, fp);
    if (st_avail < 4 || st_avail < 4 + ab) CHECK (ret == 0, "stream ends early: returns 0");
    else { CHECK (ret == 4 + ab, "returns bytes read");
           for (i = 0; i < MAXB / 8 + 2; i++) ref[i] = 0;
           for (i = 0; i < MAXB; i++) if ((unsigned long) i < ab) { unsigned long k = ab - 1 - i; ref[k / 8] |= (mp_limb_t) st[4 + i] << (8 * (k % 8)); }
           CHECK (vf_mpz_wf (x), "result well formed (normalised)");
           CHECK (vf_mag_eq (x, ref, MAXB / 8 + 1), "value is the big-endian magnitude");
           CHECK (SIZ (x) == 0 || (SIZ (x) < 0) == (cs < 0), "sign from the byte count"); }
    /* whatever happened the destination can be reassigned and cleared */
    CHECK (ALLOC (x) >= 1 && AB (SIZ (x)) <= ALLOC (x), "size within allocation after any outcome");
    mpz_set_ui (x, 5); CHECK (SIZ (x) == 1 && PTR (x)[0] == 5, "destination reassignable");
    mpz_clear (x); CHECK (vf_live == 0, "no block held after clear"); }
#endif
VF_MAIN_END
