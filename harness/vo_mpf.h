/* mpf support: object construction and a fixed-point reference (FW limbs, limb index j has weight B^(j-OFFS)) */
#ifndef VO_MPF_H
#define VO_MPF_H
#ifndef FW
#define FW 22
#endif
#define OFFS (FW / 2)
/* arbitrary well-formed mpf of precision prec (prec+1 limbs allocated), signed size, exponent */
static void vf_mpf_mk (mpf_ptr f, long prec, long size, long exp)
{ long n = size < 0 ? -size : size, i;
  mp_limb_t *p = (mp_limb_t *) (*__gmp_allocate_func) ((prec + 1) * sizeof (mp_limb_t));
  for (i = 0; i < prec + 1; i++) p[i] = in64 ();
  if (n > 0) ASSUME (p[n - 1] != 0);
  f->_mp_prec = prec; f->_mp_size = size; f->_mp_exp = n ? exp : 0; f->_mp_d = p; }
static int vf_mpf_wf (mpf_srcptr f)
{ long n = ABSIZ (f); if (n > PREC (f) + 1) return 0; if (n > 0 && PTR (f)[n - 1] == 0) return 0; if (n == 0 && EXP (f) != 0) return 0; return 1; }
/* magnitude into the fixed-point array; returns 0 if it does not fit the window (harness bound) */
static int vf_fx_mag (mp_limb_t *t, mpf_srcptr f)
{ long n = ABSIZ (f), i, j; int ok = 1; for (i = 0; i < FW; i++) t[i] = 0;
  for (i = 0; i < n; i++) { j = EXP (f) - n + i + OFFS; if (j < 0 || j >= FW - 1) ok = 0; else t[j] = PTR (f)[i]; } return ok; }
static void vf_fx_tc (mp_limb_t *t, mpf_srcptr f, int *ok)      /* two's complement */
{ mp_limb_t m[FW]; *ok = vf_fx_mag (m, f); vf_tc_from_mag (t, FW, m, FW, SIZ (f) < 0); }
static void vf_fx_abs (mp_limb_t *r, const mp_limb_t *a) { if (a[FW - 1] >> 63) vf_tc_neg (r, a, FW); else { int i; for (i = 0; i < FW; i++) r[i] = a[i]; } }
static int vf_fx_lt (const mp_limb_t *a, const mp_limb_t *b) { int i; for (i = FW - 1; i >= 0; i--) if (a[i] != b[i]) return a[i] < b[i]; return 0; }
static int vf_fx_zero (const mp_limb_t *a) { int i; for (i = 0; i < FW; i++) if (a[i]) return 0; return 1; }
/* |r - s| * 2^sh < |bound|  (sh concrete; the shifted error must stay inside the window, else the answer is "no") */
static int vf_fx_err_lt (const mp_limb_t *r, const mp_limb_t *s, unsigned long sh, const mp_limb_t *bound)
{ mp_limb_t d[FW], e[FW], e2[FW], e3[FW], b[FW]; int i;
  vf_tc_sub (d, r, s, FW); vf_fx_abs (e, d); vf_fx_abs (b, bound);
  if (vf_fx_zero (e)) return 1;
  vf_mag_shl (e2, e, FW, sh); vf_mag_shr (e3, e2, FW, sh);
  for (i = 0; i < FW; i++) if (e3[i] != e[i]) return 0;          /* shifted out of the window: certainly too large */
  return vf_fx_lt (e2, b); }
#endif
