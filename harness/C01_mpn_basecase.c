/* C01: FN 0 mpn_mul_basecase (UN >= VN), FN 1 mpn_sqr_basecase (UN == VN, same operand), FN 2 mpn_mul (public dispatch),
   FN 3 mpn_mul_n, FN 4 mpn_sqr; all limb values, D-UF */
#include "vh.h"
#include "vo_mul.h"
VF_MAIN_BEGIN
  mp_limb_t u[UN], v[VN], r[UN + VN], p[UN + VN], u0[UN], ret = 0; int i;
  VF_FIDELITY ();
  vf_fill (u, UN); vf_fill (v, VN); vf_fill (r, UN + VN);
  for (i = 0; i < UN; i++) u0[i] = u[i];
#if FN == 0
  mpn_mul_basecase (r, u, UN, v, VN); vo_mul (p, u, UN, v, VN);
#elif FN == 1
  mpn_sqr_basecase (r, u, UN); vo_mul (p, u, UN, u, UN);
#elif FN == 2
  ret = mpn_mul (r, u, UN, v, VN); vo_mul (p, u, UN, v, VN); CHECK (ret == p[UN + VN - 1], "mpn_mul returns high limb");
#elif FN == 3
  mpn_mul_n (r, u, v, UN); vo_mul (p, u, UN, v, VN);
#else
  mpn_sqr (r, u, UN); vo_mul (p, u, UN, u, UN);
#endif
  for (i = 0; i < UN + VN; i++) CHECK (r[i] == p[i], "product limb");
  for (i = 0; i < UN; i++) CHECK (u[i] == u0[i], "source unchanged");
VF_MAIN_END
