/* C06/C04: mpz_set_str on every string of LEN symbolic non-NUL bytes (+ NUL), base BASE concrete (0, 2..62); stale destination DS.
   Reference: an independent transcription of the documented grammar: leading white space, optional '-', then digits of the base
   with embedded white space allowed after the first digit; base 0: 0x/0X hex, 0b/0B binary, leading 0 octal, else decimal;
   letters case-insensitive up to base 36, upper = 10..35 / lower = 36..61 above.  Accepted <=> return 0 and value == Horner value;
   otherwise -1.  (A base-0 prefix with no digit after it - "0x" - is accepted as 0 by the library like strtol's "0"; not asserted.) */
#define VF_REC_ALLOC 1
#include "vh.h"

#define AB(x) ((x) < 0 ? -(x) : (x))
#ifndef DS
#define DS 0
#endif
/* contract stub for the digit converter (the real mpn_set_str is checked separately with concrete lengths): asserts its
   preconditions and returns the Horner value of the digit bytes */
#ifndef REAL_MPN_SET_STR
mp_size_t mpn_set_str (mp_ptr rp, const unsigned char *str, size_t str_len, int base)
{ unsigned long v = 0; size_t i;
  CHECK (str_len >= 1 && str_len <= LEN, "mpn_set_str precondition: at least one digit");
  CHECK (base >= 2 && base <= 62, "mpn_set_str: base in range");
  for (i = 0; i < LEN; i++) if (i < str_len) { CHECK (str[i] < base, "mpn_set_str precondition: digit bytes below the base"); v = v * base + str[i]; }
  rp[0] = v; return v != 0; }
#endif
static int sp (int c) { return c == ' ' || c == '\t' || c == '\n' || c == '\v' || c == '\f' || c == '\r'; }
static int dv (int c, int base)
{ if (c >= '0' && c <= '9') return c - '0';
  if (c >= 'A' && c <= 'Z') return c - 'A' + 10;
  if (c >= 'a' && c <= 'z') return base > 36 ? c - 'a' + 36 : c - 'a' + 10;
  return 255; }
VF_MAIN_BEGIN
  mpz_t x; char s[LEN + 2]; int i, neg = 0, ok = 1, unsure = 0, b = BASE, nd = 0, ret; unsigned long val = 0;
  VF_FIDELITY ();
  vf_mpz_mk (x, AB (DS) ? AB (DS) : 1, DS);
  for (i = 0; i < LEN; i++) { s[i] = (char) in64 (); ASSUME (s[i] != 0); } s[LEN] = 0; s[LEN + 1] = 0;
  /* reference */
  i = 0; while (sp ((unsigned char) s[i])) i++;
  if (s[i] == '-') { neg = 1; i++; }
  if (dv ((unsigned char) s[i], BASE) >= (BASE == 0 ? 10 : BASE)) ok = 0;
  if (ok && BASE == 0)
    { b = 10;
      if (s[i] == '0') { b = 8; if (s[i + 1] == 'x' || s[i + 1] == 'X') { b = 16; i += 2; unsure = 1; } else if (s[i + 1] == 'b' || s[i + 1] == 'B') { b = 2; i += 2; unsure = 1; } } }
  for (; ok && i <= LEN && s[i]; i++)
    { int c = (unsigned char) s[i], d; if (sp (c)) continue; d = dv (c, b); if (d >= b) { ok = 0; break; } val = val * b + d; nd++; }
  if (nd > 0) unsure = 0;
  ret = mpz_set_str (x, s, BASE);
  if (!unsure) CHECK (ret == (ok ? 0 : -1), "accepts exactly the numbers of the base, rejects everything else with -1");
  if (ret == 0 && ok)
    { CHECK (vf_mpz_wf (x), "result well formed");
      CHECK (val == 0 ? SIZ (x) == 0 : (AB (SIZ (x)) == 1 && PTR (x)[0] == val && (SIZ (x) < 0) == neg), "exact value and sign of the accepted string"); }
  CHECK (ALLOC (x) >= 1 && AB (SIZ (x)) <= ALLOC (x), "size within allocation after any outcome");
  mpz_clear (x); CHECK (vf_live == 0, "no block held after clear (no leak on the reject paths)");
VF_MAIN_END
