/* C19: range properties for every generator output.  The generator behind gmp_randstate_t is a stub installed through the real
   function-table mechanism: randget(state, rp, nbits) writes BITS_TO_LIMBS(nbits) limbs of arbitrary bits with the bits above
   nbits in the top limb zero (the contract every real generator implements; randget_lc/randget_mt are checked against it
   separately) and touches nothing else.  Rejection loops: at most MAXCALLS generator calls are explored (stated bound).
   FN 0 mpz_urandomb 1 mpz_urandomm 2 mpn_urandomb 3 mpn_urandomm 4 gmp_urandomb_ui 5 gmp_urandomm_ui 6 mpz_rrandomb 7 mpn_randomb 8 mpn_rrandom 9 mpf_urandomb
   NBITS concrete bit count; SN limbs of the modulus (urandomm); ALIAS rop==n; DS stale destination size */
#define VF_OWN_ERRNO 1
#define VF_REC_ALLOC 1
#include "vh.h"
#include "vo_mpf.h"
#define AB(x) ((x) < 0 ? -(x) : (x))
#define MX(a,b) ((a) > (b) ? (a) : (b))
#ifndef NBITS
#define NBITS 0
#endif
#ifndef SN
#define SN 1
#endif
#ifndef DS
#define DS 0
#endif
#ifndef MAXCALLS
#define MAXCALLS 3
#endif
#ifndef FPREC
#define FPREC 0
#endif
#define W (MX (MX (MX ((NBITS + 63) / 64, SN), AB (DS)), FPREC + 1) + 2)
static int calls = 0;
static void stub_get (gmp_randstate_t st, mp_ptr rp, mpir_ui nbits)
{ unsigned long i, nl = (nbits + 63) / 64;
  calls++; ASSUME (calls <= MAXCALLS);
  CHECK (nl <= W, "harness bound: request size");
  for (i = 0; i < W; i++) if (i < nl) rp[i] = in64 ();
  if (nbits % 64) rp[nl - 1] &= (1UL << (nbits % 64)) - 1; }
static void stub_seed (gmp_randstate_t st, mpz_srcptr s) { }
static void stub_clear (gmp_randstate_t st) { }
static void stub_iset (gmp_randstate_ptr d, gmp_randstate_srcptr s) { }
static const gmp_randfnptr_t stub_fns = { stub_seed, stub_get, stub_clear, stub_iset };
static int lt_pow2 (const mp_limb_t *m, unsigned long nbits)      /* W-limb magnitude < 2^nbits */
{ unsigned long i; for (i = 0; i < W; i++) { if (i > nbits / 64 && m[i]) return 0; if (i == nbits / 64 && (nbits % 64 ? m[i] >> (nbits % 64) : m[i])) return 0; } return 1; }
static int mag_lt (const mp_limb_t *a, const mp_limb_t *b) { int i; for (i = W - 1; i >= 0; i--) if (a[i] != b[i]) return a[i] < b[i]; return 0; }
VF_MAIN_BEGIN
  gmp_randstate_t st; mpz_t x, n; mpz_ptr xp = x; mp_limb_t m[W], nm[W], buf[W + 2]; int i;
  VF_FIDELITY ();
  RNG_FNPTR (st) = (void *) &stub_fns;
  vf_mpz_mk (x, MX (1, AB (DS)), DS);
#if FN == 0
  mpz_urandomb (x, st, NBITS); CHECK (vf_mpz_wf (x) && SIZ (x) >= 0, "well formed, non-negative"); vf_mag_get (m, W, x); CHECK (lt_pow2 (m, NBITS), "mpz_urandomb < 2^n");
#elif FN == 1
  vf_mpz_mk (n, SN ? AB (SN) : 1, SN); vf_mag_get (nm, W, n); if (ALIAS) xp = n;
  if (SN == 0) vf_expect_exc = 1;
  mpz_urandomm (xp, st, n); VF_NO_EXC_EXPECTED ();
  CHECK (vf_mpz_wf (xp) && SIZ (xp) >= 0, "well formed, non-negative"); vf_mag_get (m, W, xp); CHECK (mag_lt (m, nm), "mpz_urandomm in [0, n-1]");
  if (!ALIAS) CHECK (SIZ (n) == SN && vf_mag_eq (n, nm, W), "modulus unchanged");
#elif FN == 2
  for (i = 0; i < W + 2; i++) buf[i] = 0xA5A5A5A5A5A5A5A5UL;
  mpn_urandomb (buf, st, NBITS); for (i = 0; i < W; i++) m[i] = i < (NBITS + 63) / 64 ? buf[i] : 0;
  CHECK (lt_pow2 (m, NBITS), "mpn_urandomb < 2^n"); for (i = (NBITS + 63) / 64; i < W + 2; i++) CHECK (buf[i] == 0xA5A5A5A5A5A5A5A5UL, "limbs beyond the request untouched");
#elif FN == 3
  for (i = 0; i < W; i++) nm[i] = i < SN ? in64 () : 0; ASSUME (nm[SN - 1] != 0);
  for (i = 0; i < W + 2; i++) buf[i] = in64 ();                       /* arbitrary stale destination */
  { mp_limb_t s0 = buf[SN], s1 = buf[SN + 1];
    mpn_urandomm (buf, st, nm, SN); for (i = 0; i < W; i++) m[i] = i < SN ? buf[i] : 0;
    CHECK (mag_lt (m, nm), "mpn_urandomm in [0, n-1]"); CHECK (buf[SN] == s0 && buf[SN + 1] == s1, "limbs beyond n untouched"); }
#elif FN == 4
  { unsigned long r = gmp_urandomb_ui (st, NBITS); CHECK (NBITS >= 64 || r < (1UL << (NBITS % 64)), "gmp_urandomb_ui < 2^n"); }
#elif FN == 5
  { unsigned long nn = in64 (), r; if (ZN) ASSUME (nn == 0); else ASSUME (nn != 0); if (ZN) vf_expect_exc = 1;
    r = gmp_urandomm_ui (st, nn); VF_NO_EXC_EXPECTED (); CHECK (r < nn, "gmp_urandomm_ui in [0, n-1]"); }
#elif FN == 6
  mpz_rrandomb (x, st, NBITS); CHECK (SIZ (x) >= 0 && AB (SIZ (x)) <= ALLOC (x), "size within allocation"); vf_mag_get (m, W, x); CHECK (lt_pow2 (m, NBITS), "mpz_rrandomb < 2^n");
#elif FN == 7 || FN == 8
  for (i = 0; i < W + 2; i++) buf[i] = 0xA5A5A5A5A5A5A5A5UL;
  if (FN == 7) mpn_randomb (buf, st, SN); else mpn_rrandom (buf, st, SN);
  CHECK (buf[SN - 1] != 0, "top limb non-zero"); CHECK (buf[SN] == 0xA5A5A5A5A5A5A5A5UL && buf[SN + 1] == 0xA5A5A5A5A5A5A5A5UL, "exactly n limbs written");
#elif FN == 9
  { mpf_t f; vf_mpf_mk (f, FPREC, FS0, 1); mpf_urandomb (f, st, NBITS);
    CHECK (SIZ (f) >= 0 && SIZ (f) <= FPREC + 1 && (SIZ (f) == 0 || PTR (f)[SIZ (f) - 1] != 0), "mpf_urandomb: non-negative, at most prec+1 limbs, top limb non-zero");
    CHECK (EXP (f) <= 0, "mpf_urandomb in [0,1): exponent <= 0"); }
#endif
VF_MAIN_END
