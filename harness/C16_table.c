/* C16: functions answered from tables / short recurrences for small arguments, n symbolic in [0, NMAX].
   FN 0 mpz_fac_ui (n <= 20: result fits a limb)  1 mpz_fib_ui (n <= 93)  2 mpz_lucnum_ui (n <= 90)  3 mpz_2fac_ui (n <= 33)  4 mpz_fib2_ui  5 mpz_primorial_ui (n <= 52) */
#define VF_REC_ALLOC 1
#include "vh.h"
/* arguments above the table range take the product / doubling paths of the real code: outside this harness' domain */
void mpz_oddfac_1 (mpz_ptr x, mp_limb_t n, unsigned flag) { CHECK (0, "harness domain: table range never reaches mpz_oddfac_1"); ASSUME (0); }
mp_size_t mpz_prodlimbs (mpz_ptr x, mp_ptr f, mp_size_t j) { CHECK (0, "harness domain: table range never reaches mpz_prodlimbs"); ASSUME (0); return 0; }
mp_size_t mpn_fib2_ui (mp_ptr fp, mp_ptr f1p, mpir_ui n) { CHECK (0, "harness domain: table range never reaches mpn_fib2_ui"); ASSUME (0); return 0; }
VF_MAIN_BEGIN
  mpz_t x, y; unsigned long n = in64 (), e = 1, e2 = 0, i;
  VF_FIDELITY ();
  ASSUME (n <= NMAX);
  if (FN == 3) ASSUME (n & 1);      /* even arguments go through mpz_oddfac_1: outside this harness' domain */
  vf_mpz_mk (x, 1, 0); vf_mpz_mk (y, 1, 0);
#if FN == 0
  for (i = 2; i <= NMAX; i++) if (i <= n) e *= i; mpz_fac_ui (x, n);
#elif FN == 3
  for (i = 2; i <= NMAX; i++) if (i <= n && ((i ^ n) & 1) == 0) e *= i; mpz_2fac_ui (x, n);
#elif FN == 1 || FN == 4
  { unsigned long a = 0, b = 1; for (i = 0; i < NMAX; i++) if (i < n) { unsigned long t = a + b; a = b; b = t; } e = a; e2 = n ? b - a : 1; }   /* F(n), F(n-1) (F(-1) = 1) */
  if (FN == 1) mpz_fib_ui (x, n); else mpz_fib2_ui (x, y, n);
#elif FN == 2
  { unsigned long a = 2, b = 1; for (i = 0; i < NMAX; i++) if (i < n) { unsigned long t = a + b; a = b; b = t; } e = a; }
  mpz_lucnum_ui (x, n);
#elif FN == 5
  { static const unsigned char pr[] = { 2, 3, 5, 7, 11, 13, 17, 19, 23, 29, 31, 37, 41, 43, 47 }; for (i = 0; i < 15; i++) if (pr[i] <= n) e *= pr[i]; } mpz_primorial_ui (x, n);
#endif
  CHECK (vf_mpz_wf (x), "result well formed");
  CHECK (e == 0 ? SIZ (x) == 0 : (SIZ (x) == 1 && PTR (x)[0] == e), "exact value by the defining recurrence");
#if FN == 4
  CHECK (vf_mpz_wf (y) && (e2 == 0 ? SIZ (y) == 0 : (SIZ (y) == 1 && PTR (y)[0] == e2)), "fib2: F(n-1)");
#endif
  mpz_clear (x); mpz_clear (y); CHECK (vf_live == 0, "no block held");
VF_MAIN_END
