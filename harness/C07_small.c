/* C07: gcd family on a small-value domain with the real code (values < 2^VB placed in the low bits; SHU/SHV extra low zero bits
   exercise the binary-gcd strip paths).  FN 0 mpn_gcd_1  1 mpz_gcd (signs SU,SV incl. 0)  2 mpz_gcd_ui  3 mpz_lcm (single-limb path)
   4 mpz_jacobi / mpz_kronecker on small operands  ALIAS (gcd/lcm): 0 distinct 1 r==u 2 r==v
   Oracles: Euclid / |uv|/g / the Kronecker symbol by its defining rules, in narrow arithmetic. */
#define VF_REC_ALLOC 1
#define VF_MAXL 3
#include "vh.h"
#ifndef VB
#define VB 7
#endif
#ifndef SHU
#define SHU 0
#endif
#ifndef SHV
#define SHV 0
#endif
#ifdef VF_CBMC
typedef unsigned __CPROVER_bitvector[VB + 12] sm;
#else
typedef unsigned long sm;
#endif
#define IT (2 * (VB + 10))
static unsigned long euclid (unsigned long a0, unsigned long b0)
{ sm a = (sm) a0, b = (sm) b0; int i; for (i = 0; i < IT; i++) { sm t; if (b == 0) break; t = a % b; a = b; b = t; } CHECK (b == 0, "reference Euclid inside its bound"); return (unsigned long) a; }
/* Kronecker symbol (a/b) by definition: (a/0) = [|a|==1], (a/-1) = a<0?-1:1, (a/2) = 0 if a even else (a mod 8 in {1,7} ? 1 : -1), odd prime power part via the binary Jacobi algorithm */
static int kron (long a, long b)
{ int r = 1, i; unsigned long ua, ub;
  if (b == 0) return (a == 1 || a == -1);
  if (b < 0) { if (a < 0) r = -r; b = -b; }
  if (((a & 1) == 0) && ((b & 1) == 0)) return 0;
  ub = (unsigned long) b;
  for (i = 0; i < VB + 10; i++) if ((ub & 1) == 0) { unsigned long m = (unsigned long) a & 7; ub >>= 1; if (m == 3 || m == 5) r = -r; }
  /* now ub odd positive: Jacobi (a/ub); reduce a mod ub into [0,ub) */
  { long m = a % (long) ub; if (m < 0) m += (long) ub; ua = (unsigned long) m; }
  for (i = 0; i < IT; i++)
    { int j; if (ua == 0) break;
      for (j = 0; j < VB + 10; j++) if ((ua & 1) == 0) { ua >>= 1; if ((ub & 7) == 3 || (ub & 7) == 5) r = -r; }
      if ((ua & 3) == 3 && (ub & 3) == 3) r = -r;
      { unsigned long t = ua; ua = (unsigned long) ((sm) ub % (sm) ua); ub = t; } }
  return ub == 1 ? r : 0; }
VF_MAIN_BEGIN
  mpz_t u, v, r; mpz_ptr rp = r; unsigned long a = in64 (), b = in64 (), g; int i;
  VF_FIDELITY ();
  ASSUME (a < (1UL << VB) && b < (1UL << VB));
#if FN == 0
  ASSUME (a != 0 && b != 0);
  if (SHU || SHV) ASSUME ((a & 1) && (b & 1));       /* shifted operands: odd parts times 2^SHU, 2^SHV, so gcd = gcd(odd parts) << min */
  { mp_limb_t ul[1]; unsigned long e = euclid (a, b) << (SHU < SHV ? SHU : SHV); ul[0] = a << SHU; g = mpn_gcd_1 (ul, 1, b << SHV); CHECK (g == e, "mpn_gcd_1 is the gcd"); }
#elif FN == 1 || FN == 3
  if (SU == 0) ASSUME (a == 0); else ASSUME (a != 0); if (SV == 0) ASSUME (b == 0); else ASSUME (b != 0);
  vf_mpz_mk (u, 1, SU); if (SU) PTR (u)[0] = a; vf_mpz_mk (v, 1, SV); if (SV) PTR (v)[0] = b; vf_mpz_mk (r, 1, 0);
  if (ALIAS == 1) rp = u; if (ALIAS == 2) rp = v;
  g = euclid (a, b);
  if (FN == 1) { mpz_gcd (rp, u, v); CHECK (vf_mpz_wf (rp) && SIZ (rp) >= 0, "gcd well formed, non-negative"); CHECK (g == 0 ? SIZ (rp) == 0 : (SIZ (rp) == 1 && PTR (rp)[0] == g), "mpz_gcd is the greatest common divisor"); }
  else { unsigned long l = (a == 0 || b == 0) ? 0 : (unsigned long) ((sm) a / (sm) g) * b;
         mpz_lcm (rp, u, v); CHECK (vf_mpz_wf (rp) && SIZ (rp) >= 0, "lcm well formed, non-negative"); CHECK (l == 0 ? SIZ (rp) == 0 : (SIZ (rp) == 1 && PTR (rp)[0] == l), "mpz_lcm is |u v| / gcd"); }
  if (rp != u) CHECK (SIZ (u) == SU && (SU == 0 || PTR (u)[0] == a), "u unchanged"); if (rp != v) CHECK (SIZ (v) == SV && (SV == 0 || PTR (v)[0] == b), "v unchanged");
#elif FN == 2
  if (SU == 0) ASSUME (a == 0); else ASSUME (a != 0);
  vf_mpz_mk (u, 1, SU); if (SU) PTR (u)[0] = a; vf_mpz_mk (r, 1, 0); if (ALIAS == 1) rp = u;
  g = euclid (a, b);
  { unsigned long ret = mpz_gcd_ui (rp, u, b); CHECK (ret == g, "mpz_gcd_ui returns the gcd"); CHECK (vf_mpz_wf (rp) && (g == 0 ? SIZ (rp) == 0 : (SIZ (rp) == 1 && PTR (rp)[0] == g)), "mpz_gcd_ui stores the gcd"); }
#elif FN == 4
  if (SU == 0) ASSUME (a == 0); else ASSUME (a != 0); if (SV == 0) ASSUME (b == 0); else ASSUME (b != 0);
  vf_mpz_mk (u, 1, SU); if (SU) PTR (u)[0] = a; vf_mpz_mk (v, 1, SV); if (SV) PTR (v)[0] = b;
  { long sa = SU < 0 ? - (long) a : (long) a, sb = SV < 0 ? - (long) b : (long) b; int k, e;
#if KFN == 0
    k = mpz_kronecker (u, v); e = kron (sa, sb);
#elif KFN == 1
    k = mpz_kronecker_si (u, sb); e = kron (sa, sb);
#elif KFN == 2
    k = mpz_kronecker_ui (u, b); e = kron (sa, (long) b);
#elif KFN == 3
    k = mpz_si_kronecker (sa, v); e = kron (sa, sb);
#else
    k = mpz_ui_kronecker (a, v); e = kron ((long) a, sb);
#endif
    CHECK (k == e, "the Kronecker symbol for every sign and parity combination"); }
#endif
VF_MAIN_END
