/* support definitions for the translated inline asm (lib/asm_inline.py) */
#ifndef VF_ASM_H
#define VF_ASM_H
#ifdef VF_CBMC
#define VF_DIVQ_PRE(c) __CPROVER_assert((c), "divq #DE: high word < divisor")
#else
#include <stdlib.h>
#include <stdio.h>
#define VF_DIVQ_PRE(c) do { if (!(c)) { puts("REPLAY-FAIL divq #DE"); exit(1); } } while (0)
#endif
static inline unsigned long vf_bsr (unsigned long x)
{ /* index of highest set bit; ISA: undefined for 0 */
  unsigned long i = 0;
#ifdef VF_CBMC
  if (x == 0) { unsigned long nd; return nd; }
#endif
  if (x >> 32) { i += 32; x >>= 32; }
  if (x >> 16) { i += 16; x >>= 16; }
  if (x >> 8) { i += 8; x >>= 8; }
  if (x >> 4) { i += 4; x >>= 4; }
  if (x >> 2) { i += 2; x >>= 2; }
  if (x >> 1) { i += 1; }
  return i;
}
static inline unsigned long vf_bsf (unsigned long x)
{
  unsigned long i = 0;
#ifdef VF_CBMC
  if (x == 0) { unsigned long nd; return nd; }
#endif
  if ((x & 0xffffffffUL) == 0) { i += 32; x >>= 32; }
  if ((x & 0xffff) == 0) { i += 16; x >>= 16; }
  if ((x & 0xff) == 0) { i += 8; x >>= 8; }
  if ((x & 0xf) == 0) { i += 4; x >>= 4; }
  if ((x & 0x3) == 0) { i += 2; x >>= 2; }
  if ((x & 0x1) == 0) { i += 1; }
  return i;
}
/* D-UF: limb products as uninterpreted functions shared by code and oracle.
   Natively (replay) they are the real product. */
#ifdef VF_CBMC
unsigned long __CPROVER_uninterpreted_mulhi (unsigned long, unsigned long);
unsigned long __CPROVER_uninterpreted_mullo (unsigned long, unsigned long);
/* Measured: mul_basecase 2x2 plain UF 1.2 s; + operand ordering for commutativity 9.6 s; + 0/1 axioms
   235 s; submul_1 n=3 plain UF 1.5 s, + range axiom (hi <= B-2) > 300 s.  So: plain UF by default (sound:
   a proof under UF holds for real products; a UF counterexample must reproduce natively to count),
   ordering only in the 'ufc' overlay (VF_UF_COMM), range axiom only with VF_UF_RANGE. */
#ifdef VF_UF_COMM
#define VF_UF_ARGS(a, b) ((a) < (b) ? (a) : (b)), ((a) < (b) ? (b) : (a))
#else
#define VF_UF_ARGS(a, b) (a), (b)
#endif
/* VF_UF_RANGE ('ufr' overlay): the range facts of real products, imposed by construction (clamping), not
   by assumption: hi <= B-2, and hi == B-2 implies lo <= 1, i.e. hi:lo <= (B-1)^2.  Needed where code and
   oracle would otherwise differ only in how an impossible overflow is lost. */
static inline unsigned long vf_uf_hi (unsigned long a, unsigned long b)
{ unsigned long h = __CPROVER_uninterpreted_mulhi (VF_UF_ARGS (a, b));
#ifdef VF_UF_RANGE
  if (h == 0xffffffffffffffffUL) h = 0xfffffffffffffffeUL;
#endif
  return h; }
static inline unsigned long vf_uf_lo (unsigned long a, unsigned long b)
{ unsigned long l = __CPROVER_uninterpreted_mullo (VF_UF_ARGS (a, b));
#ifdef VF_UF_RANGE
  if (__CPROVER_uninterpreted_mulhi (VF_UF_ARGS (a, b)) >= 0xfffffffffffffffeUL && l > 1) l = 1;
#endif
  return l; }
#else
static inline unsigned long vf_uf_hi (unsigned long a, unsigned long b)
{ return (unsigned long) (((unsigned __int128) a * b) >> 64); }
static inline unsigned long vf_uf_lo (unsigned long a, unsigned long b)
{ return a * b; }
#endif
#endif
