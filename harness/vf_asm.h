/* support definitions for the translated inline asm (lib/asm_inline.py) */
#ifndef VF_ASM_H
#define VF_ASM_H
#ifdef __CPROVER__
#define VF_DIVQ_PRE(c) __CPROVER_assert((c), "divq #DE: high word < divisor")
#else
#include <stdlib.h>
#include <stdio.h>
#define VF_DIVQ_PRE(c) do { if (!(c)) { puts("REPLAY-FAIL divq #DE"); exit(1); } } while (0)
#endif
static inline unsigned long vf_bsr (unsigned long x)
{ /* index of highest set bit; ISA: undefined for 0 */
  unsigned long i = 0;
#ifdef __CPROVER__
  if (x == 0) { unsigned long nd; return nd; }
#endif
  if (x >> 32) { i += 32; x >>= 32; }
  if (x >> 16) { i += 16; x >>= 16; }
  if (x >> 8) { i += 8; x >>= 8; }
  if (x >> 4) { i += 4; x >>= 4; }
  if (x >> 2) { i += 2; x >>= 2; }
  if (x >> 1) { i += 1; }
  return i;
}
static inline unsigned long vf_bsf (unsigned long x)
{
  unsigned long i = 0;
#ifdef __CPROVER__
  if (x == 0) { unsigned long nd; return nd; }
#endif
  if ((x & 0xffffffffUL) == 0) { i += 32; x >>= 32; }
  if ((x & 0xffff) == 0) { i += 16; x >>= 16; }
  if ((x & 0xff) == 0) { i += 8; x >>= 8; }
  if ((x & 0xf) == 0) { i += 4; x >>= 4; }
  if ((x & 0x3) == 0) { i += 2; x >>= 2; }
  if ((x & 0x1) == 0) { i += 1; }
  return i;
}
/* D-UF: limb products as uninterpreted functions shared by code and oracle.
   Natively (replay) they are the real product. */
#ifdef __CPROVER__
unsigned long __CPROVER_uninterpreted_mulhi (unsigned long, unsigned long);
unsigned long __CPROVER_uninterpreted_mullo (unsigned long, unsigned long);
static inline unsigned long vf_uf_hi (unsigned long a, unsigned long b)
{ unsigned long x = a < b ? a : b, y = a < b ? b : a;
  unsigned long h = __CPROVER_uninterpreted_mulhi (x, y);
  /* range axioms true of real products: hi <= B-2 ; hi:lo <= (B-1)^2 ; 0*y = 0 ; 1*y = y */
  __CPROVER_assume (h <= 0xfffffffffffffffeUL);
  __CPROVER_assume (!(x == 0) || h == 0);
  __CPROVER_assume (!(x == 1) || h == 0);
  return h; }
static inline unsigned long vf_uf_lo (unsigned long a, unsigned long b)
{ unsigned long x = a < b ? a : b, y = a < b ? b : a;
  unsigned long l = __CPROVER_uninterpreted_mullo (x, y);
  unsigned long h = __CPROVER_uninterpreted_mulhi (x, y);
  __CPROVER_assume (!(h == 0xfffffffffffffffeUL) || l <= 1);
  __CPROVER_assume (!(x == 0) || l == 0);
  __CPROVER_assume (!(x == 1) || l == y);
  return l; }
#else
static inline unsigned long vf_uf_hi (unsigned long a, unsigned long b)
{ return (unsigned long) (((unsigned __int128) a * b) >> 64); }
static inline unsigned long vf_uf_lo (unsigned long a, unsigned long b)
{ return a * b; }
#endif
#endif
