/* C12 (also C04/C05 shapes): mpq_add/sub/mul/div/canonicalize, real mpq + mpz layers, small-value domain:
   |num|, den < 2^BITS, inputs canonical (assumed through a reference Euclid), every alias pattern, stale destination.
   The mpz callees (mpz_gcd, mpz_divexact_gcd, mpz_mul, mpz_add, mpz_sub) are *specification stubs* valid on this domain
   (their own correctness is C07/C02/C01/C03; each reads its sources completely before it writes its destination, the
   aliasing contract of C05); signs and zero-ness of the operands are concrete per query (SA, SB in -1,0,1).
   mpz_gcd and mpz_divexact_gcd check their preconditions:
   the stubs assert their preconditions (operand bound; divisor positive and dividing exactly), so a wrong pairing of
   gcds and operands in the mpq layer is caught at the call, and a wrong formula by the final value check.
   FN 0 add 1 sub 2 mul 3 div 4 canonicalize; ALIAS 0 distinct 1 r==a 2 r==b 3 a==b 4 r==a==b; DN/DD stale sizes of distinct r */
#define VF_OWN_ERRNO 1
#define VF_REC_ALLOC 1
#define VF_MAXL 3
#include "vh.h"
#ifndef BITS
#define BITS 4
#endif
#ifndef SB
#define SB 1
#endif
#ifndef SDA
#define SDA 1
#endif
#ifndef DN
#define DN 0
#endif
#ifndef DD
#define DD 1
#endif
#define LIM (1UL << (2 * BITS + 2))
#define AB(x) ((x) < 0 ? -(x) : (x))
#define MX(a,b) ((a) > (b) ? (a) : (b))
#define GCD_IT (3 * BITS + 6)
#ifdef VF_CBMC
typedef unsigned __CPROVER_bitvector[2 * BITS + 4] vf_sm;
typedef signed __CPROVER_bitvector[2 * BITS + 6] vf_ss;
#else
typedef unsigned long vf_sm;
typedef long vf_ss;
#endif
#define SMUL(x, y) ((long) ((vf_ss) (x) * (vf_ss) (y)))
static unsigned long vf_gcd_small (unsigned long a0, unsigned long b0)
{ int i; vf_sm a = (vf_sm) a0, b = (vf_sm) b0;
  for (i = 0; i < GCD_IT; i++) { vf_sm t; if (b == 0) break; t = a % b; a = b; b = t; }
  CHECK (b == 0, "reference Euclid finished inside its bound"); return (unsigned long) a; }
static unsigned long vf_div_small (unsigned long a, unsigned long b) { return (unsigned long) ((vf_sm) a / (vf_sm) b); }
static unsigned long vf_mod_small (unsigned long a, unsigned long b) { return (unsigned long) ((vf_sm) a % (vf_sm) b); }
static long vf_val (mpz_srcptr z) { unsigned long x = ABSIZ (z) ? PTR (z)[0] : 0; CHECK (ABSIZ (z) <= 1 && x < LIM, "spec stub: operand inside the stub's domain"); return SIZ (z) < 0 ? - (long) x : (long) x; }
static void vf_put (mpz_ptr w, long v) { if (v == 0) SIZ (w) = 0; else { MPZ_REALLOC (w, 1); PTR (w)[0] = v < 0 ? -v : v; SIZ (w) = v < 0 ? -1 : 1; } }
void mpz_mul (mpz_ptr w, mpz_srcptr u, mpz_srcptr v) { long x = vf_val (u), y = vf_val (v); vf_put (w, SMUL (x, y)); }
void mpz_add (mpz_ptr w, mpz_srcptr u, mpz_srcptr v) { long x = vf_val (u), y = vf_val (v); vf_put (w, x + y); }
void mpz_sub (mpz_ptr w, mpz_srcptr u, mpz_srcptr v) { long x = vf_val (u), y = vf_val (v); vf_put (w, x - y); }

void mpz_gcd (mpz_ptr g, mpz_srcptr a, mpz_srcptr b)
{ unsigned long x, y, r;
  CHECK (ABSIZ (a) <= 1 && ABSIZ (b) <= 1, "spec stub mpz_gcd: operands inside the stub's domain (one limb)");
  x = ABSIZ (a) ? PTR (a)[0] : 0; y = ABSIZ (b) ? PTR (b)[0] : 0;
  CHECK (x < LIM && y < LIM, "spec stub mpz_gcd: operands inside the stub's domain");
  r = vf_gcd_small (x, y);
  if (r == 0) SIZ (g) = 0; else { MPZ_REALLOC (g, 1); PTR (g)[0] = r; SIZ (g) = 1; } }
void mpz_divexact_gcd (mpz_ptr q, mpz_srcptr a, mpz_srcptr d)
{ unsigned long x, y, r; int neg = SIZ (a) < 0;
  CHECK (SIZ (d) == 1, "mpz_divexact_gcd precondition: divisor positive (one limb in this domain)");
  CHECK (ABSIZ (a) <= 1, "spec stub mpz_divexact_gcd: dividend inside the stub's domain");
  x = ABSIZ (a) ? PTR (a)[0] : 0; y = PTR (d)[0];
  CHECK (y != 0 && x < LIM && y < LIM, "spec stub mpz_divexact_gcd: operands inside the stub's domain");
  CHECK (vf_mod_small (x, y) == 0, "mpz_divexact_gcd precondition: divisor divides the dividend exactly");
  r = vf_div_small (x, y);
  if (r == 0) SIZ (q) = 0; else { MPZ_REALLOC (q, 1); PTR (q)[0] = r; SIZ (q) = neg ? -1 : 1; } }

/* sn, sd: concrete signs (-1,0,1) of numerator and denominator */
static void mk_small (mpq_ptr q, long *n, long *d, int canonical, int sn, int sd)
{ unsigned long a = in64 (), b = in64 ();
  ASSUME (a < (1UL << BITS) && b < (1UL << BITS));
  ASSUME ((a == 0) == (sn == 0) && (b == 0) == (sd == 0));
  if (canonical) { ASSUME (vf_gcd_small (a, b) == 1); }   /* gcd(0,b)==1 forces b==1 for zero */
  { mp_limb_t *np = (mp_limb_t *) (*__gmp_allocate_func) (8), *dp = (mp_limb_t *) (*__gmp_allocate_func) (8);
    np[0] = a; dp[0] = b;
    ALLOC (mpq_numref (q)) = 1; PTR (mpq_numref (q)) = np; SIZ (mpq_numref (q)) = sn;
    ALLOC (mpq_denref (q)) = 1; PTR (mpq_denref (q)) = dp; SIZ (mpq_denref (q)) = sd; }
  *n = sn < 0 ? - (long) a : (long) a; *d = sd < 0 ? - (long) b : (long) b; }

VF_MAIN_BEGIN
  mpq_t a, b, r; mpq_ptr ap = a, bp = b, rp = r; long an, ad, bn, bd, en = 0, ed = 1, g, a0n, a0d, b0n, b0d;
  VF_FIDELITY ();
  mk_small (a, &an, &ad, FN != 4, SA, FN != 4 ? 1 : SDA);
  if (ALIAS == 3 || ALIAS == 4) { bp = a; bn = an; bd = ad; } else mk_small (b, &bn, &bd, 1, SB, 1);
  if (ALIAS == 1 || ALIAS == 4) rp = a; else if (ALIAS == 2) rp = b; else vf_mpq_mk (r, MX (1, AB (DN)), DN, DD, DD);
  switch (FN) {
    case 0: mpq_add (rp, ap, bp); en = SMUL (an, bd) + SMUL (bn, ad); ed = SMUL (ad, bd); break;
    case 1: mpq_sub (rp, ap, bp); en = SMUL (an, bd) - SMUL (bn, ad); ed = SMUL (ad, bd); break;
    case 2: mpq_mul (rp, ap, bp); en = SMUL (an, bn); ed = SMUL (ad, bd); break;
    case 3: if (bn == 0) vf_expect_exc = 1; mpq_div (rp, ap, bp); VF_NO_EXC_EXPECTED (); en = SMUL (an, bd); ed = SMUL (ad, bn); break;
    case 4: if (ad == 0) vf_expect_exc = 1; rp = a; mpq_canonicalize (a); VF_NO_EXC_EXPECTED (); en = an; ed = ad; break; }
  if (ed < 0) { ed = -ed; en = -en; }
  g = (long) vf_gcd_small ((unsigned long) (en < 0 ? -en : en), (unsigned long) ed);
  if (en < 0) en = - (long) vf_div_small ((unsigned long) (-en), (unsigned long) g); else en = (long) vf_div_small ((unsigned long) en, (unsigned long) g);
  ed = (long) vf_div_small ((unsigned long) ed, (unsigned long) g);
  CHECK (vf_mpq_wf (rp), "result well formed, denominator positive");
  CHECK (ABSIZ (mpq_numref (rp)) <= 1 && ABSIZ (mpq_denref (rp)) == 1, "result sizes");
  CHECK (PTR (mpq_denref (rp))[0] == (unsigned long) ed, "canonical denominator");
  CHECK ((en == 0) == (SIZ (mpq_numref (rp)) == 0), "zero numerator canonical");
  if (en != 0) { CHECK ((SIZ (mpq_numref (rp)) < 0) == (en < 0), "numerator sign");
                 CHECK (PTR (mpq_numref (rp))[0] == (unsigned long) (en < 0 ? -en : en), "canonical numerator"); }
  if (rp != ap) { CHECK (vf_mpq_wf (ap) && SIZ (mpq_numref (ap)) == (an == 0 ? 0 : an < 0 ? -1 : 1) && (an == 0 || PTR (mpq_numref (ap))[0] == (unsigned long) AB (an)) && PTR (mpq_denref (ap))[0] == (unsigned long) ad, "operand a unchanged"); }
  if (rp != bp) { CHECK (vf_mpq_wf (bp) && SIZ (mpq_numref (bp)) == (bn == 0 ? 0 : bn < 0 ? -1 : 1) && (bn == 0 || PTR (mpq_numref (bp))[0] == (unsigned long) AB (bn)) && PTR (mpq_denref (bp))[0] == (unsigned long) bd, "operand b unchanged"); }
  /* C04: everything the call allocated for itself is released again */
  mpq_clear (a); if (ALIAS != 3 && ALIAS != 4) mpq_clear (b); if (ALIAS == 0 || ALIAS == 3) mpq_clear (r);
  CHECK (vf_live == 0, "no block is held once every object is cleared");
VF_MAIN_END
