/* C10: FN 0 scan0 1 scan1 (START concrete) 2 popcount 3 hamdist (SV) ; SU signed size */
#include "vh.h"
#define AB(x) ((x) < 0 ? -(x) : (x))
#define MX(a,b) ((a) > (b) ? (a) : (b))
#ifndef SV
#define SV 0
#endif
#ifndef START
#define START 0
#endif
#define W (MX (AB (SU), AB (SV)) + 1)
static unsigned long ref_scan (const mp_limb_t *t, int w, int neg, unsigned long start, int want)
{ int i; unsigned long ext = neg ? ~0UL : 0UL;
  for (i = start / 64; i < w; i++)
    { mp_limb_t x = want ? t[i] : ~t[i];
      if (i == (int) (start / 64)) x &= ~0UL << (start % 64);
      if (x != 0) return (unsigned long) i * 64 + __builtin_ctzl (x); }
  if ((want ? ext : ~ext) != 0) return start > (unsigned long) w * 64 ? start : (unsigned long) w * 64;
  return ~0UL; }
VF_MAIN_BEGIN
  mpz_t u, v; mp_limb_t tu[W], tv[W]; int i; unsigned long got, want;
  VF_FIDELITY ();
  vf_mpz_mk (u, MX (1, AB (SU)), SU); vf_tc_from_mpz (tu, W, u);
#if FN == 0 || FN == 1
  got = FN == 0 ? mpz_scan0 (u, START) : mpz_scan1 (u, START);
  want = ref_scan (tu, W, SU < 0, START, FN);
  CHECK (got == want, "scan result");
#elif FN == 2
  got = mpz_popcount (u); want = 0;
  for (i = 0; i < W; i++) want += __builtin_popcountl (tu[i]);
  if (SU < 0) want = ~0UL;
  CHECK (got == want, "popcount");
#else
  vf_mpz_mk (v, MX (1, AB (SV)), SV); vf_tc_from_mpz (tv, W, v);
  got = mpz_hamdist (u, v); want = 0;
  for (i = 0; i < W; i++) want += __builtin_popcountl (tu[i] ^ tv[i]);
  if ((SU < 0) != (SV < 0)) want = ~0UL;
  CHECK (got == want, "hamdist");
#endif
  CHECK (SIZ (u) == SU, "operand unchanged");
VF_MAIN_END
