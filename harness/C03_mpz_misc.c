/* C03: FN 0 mpz_neg 1 mpz_abs 2 mpz_set 3 mpz_swap 4 mpz_mul_2exp (count CNT concrete). SU signed size; ALIAS 0/1 */
#include "vh.h"
#define AB(x) ((x) < 0 ? -(x) : (x))
#define MX(a,b) ((a) > (b) ? (a) : (b))
#ifndef SW
#define SW 0
#endif
#ifndef CNT
#define CNT 0  /* mul_2exp: the shift count is a concrete shape parameter: a symbolic count makes wp+cnt/64 a
                  symbolic-offset pointer (2.8M clauses, no verdict in 180 s); all counts 1..63 are covered
                  symbolically at the mpn_lshift level */
#endif
#define LC (CNT / 64)
#define W (AB (SU) + 2 + (FN == 4 ? LC + 1 : 0))
VF_MAIN_BEGIN
  mpz_t u, w; mpz_ptr wp = ALIAS ? u : w; mp_limb_t tu[W], tw[W], te[W]; int i;
  VF_FIDELITY ();
  vf_mpz_mk (u, MX (1, AB (SU)), SU);
  if (!ALIAS) vf_mpz_mk (w, AW, FN == 3 ? SW : 0);
  vf_tc_from_mpz (tu, W, u);
#if FN == 0
  mpz_neg (wp, u); vf_tc_neg (te, tu, W);
#elif FN == 1
  mpz_abs (wp, u); if (SU < 0) vf_tc_neg (te, tu, W); else for (i = 0; i < W; i++) te[i] = tu[i];
#elif FN == 2
  mpz_set (wp, u); for (i = 0; i < W; i++) te[i] = tu[i];
#elif FN == 3
  { mp_limb_t tw0[W]; vf_tc_from_mpz (tw0, W, w); mpz_swap (w, u);
    CHECK (vf_mpz_wf (u), "swap: u wf"); vf_tc_from_mpz (tw, W, u); CHECK (vf_tc_eq (tw, tw0, W), "swap: u gets old w");
    for (i = 0; i < W; i++) te[i] = tu[i]; }
#elif FN == 4
  { unsigned long cnt = CNT; unsigned lc = LC, bc = CNT % 64;
    mpz_mul_2exp (wp, u, cnt);
    for (i = 0; i < W; i++)
      { mp_limb_t lo = (i >= (int) lc) ? tu[i - lc] : 0, lo1 = (i >= (int) lc + 1) ? tu[i - lc - 1] : 0;
        te[i] = bc ? (lo << bc) | (lo1 >> (64 - bc)) : lo; } }
#endif
  CHECK (vf_mpz_wf (wp), "result well formed");
  CHECK (AB (SIZ (wp)) <= W - 1, "result size bound");
  vf_tc_from_mpz (tw, W, wp);
  CHECK (vf_tc_eq (tw, te, W), "exact signed result");
  if (!ALIAS && FN != 3) CHECK (SIZ (u) == SU, "u size unchanged");
VF_MAIN_END
