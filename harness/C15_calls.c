/* C15: frame-only calls of functions the property names that have no value harness family of their own.  The generated
   wrapper (props/C15.py) snapshots every static-lifetime object of the real units before main's body and compares after it.
   FN 0 mpn_mul_fft_main: the real parameter search for symbolic operand sizes; the two transform drivers are contract stubs that
        assert the precondition the search must establish (coefficients fit: j1 + j2 - 1 <= 4n with bits = (n*w - (depth+1))/2)
   FN 1 mpz_set_str, decimal string of SL symbolic digits, tuning table with the DC / precomputed-power paths enabled at this length
   FN 2 mpz_get_str base 10 of a concrete UN-limb operand, DC / precomputed-power paths enabled
   FN 3 mpz_fib_ui / mpz_lucnum_ui beyond the table, n concrete
   FN 4 mpz_gcdext on small symbolic operands
   FN 5 mpn_mul_n (SUB 0) / mpn_sqr (SUB 1) on NV limbs with the Karatsuba threshold of the tuning table lowered to 4 (a valid setting: the
        algorithm accepts n >= 2), so that the fixed-size workspace path of mpn_mul_n/mpn_sqr and mpn_kara_*_n run at a size the solver can
        take; lowest limb of the first operand symbolic, exact products; only the frame obligation matters here */
#define VF_REC_ALLOC 1
#define VF_ALLOC_BYTES 1
#ifndef VF_MAXL
#define VF_MAXL 24
#endif
#include "vh.h"
#if FN == 0
static int calls = 0;
static void chk (mp_size_t n1, mp_size_t n2, mp_bitcnt_t depth, mp_bitcnt_t w)
{ mp_size_t n = (mp_size_t) 1 << depth; mp_bitcnt_t bits = (n * w - (depth + 1)) / 2; mp_size_t j1, j2;
  calls++;
  CHECK (depth >= 2 && depth <= 24 && w >= 1, "FFT parameters in range");
  CHECK (bits >= 1, "coefficient width positive");
  j1 = (n1 * GMP_LIMB_BITS - 1) / bits + 1; j2 = (n2 * GMP_LIMB_BITS - 1) / bits + 1;
  CHECK (j1 + j2 - 1 <= 4 * n, "the truncated transform of length 4n holds the product coefficients");
  CHECK (2 * bits + depth + 1 <= n * w, "coefficient products plus carries fit the ring"); }
void mpn_mul_trunc_sqrt2 (mp_ptr r1, mp_srcptr i1, mp_size_t n1, mp_srcptr i2, mp_size_t n2, mp_bitcnt_t depth, mp_bitcnt_t w) { chk (n1, n2, depth, w); }
void mpn_mul_mfa_trunc_sqrt2 (mp_ptr r1, mp_srcptr i1, mp_size_t n1, mp_srcptr i2, mp_size_t n2, mp_bitcnt_t depth, mp_bitcnt_t w) { chk (n1, n2, depth, w); }
#endif
VF_MAIN_BEGIN
  VF_FIDELITY ();
#if FN == 0
  { mp_size_t n1 = in64 (), n2 = in64 (); mp_limb_t d;
    ASSUME (n2 >= 1 && n2 <= n1 && n1 >= NLO && n1 <= NHI && n1 + n2 >= 120);
    mpn_mul_fft_main (&d, &d, n1, &d, n2);
    CHECK (calls == 1, "one transform call"); }
#elif FN == 1
  { char s[SL + 1]; mpz_t z; int i, rc;
    /* digits concrete except SYMD symbolic ones (the conversion is a chain of products: all-symbolic digits do not finish) */
    for (i = 0; i < SL; i++) { s[i] = '1' + (i * 7) % 9; if (SYMD && i % (SL / (SYMD ? SYMD : 1)) == 1) { unsigned long c = in64 (); ASSUME (c < 10); s[i] = '0' + c; } } s[SL] = 0;
    vf_mpz_mk (z, 1, 0);
    rc = mpz_set_str (z, s, 10);
    CHECK (rc == 0, "decimal string accepted"); CHECK (vf_mpz_wf (z), "result well formed");
    mpz_clear (z); CHECK (vf_live == 0, "no block held"); }
#elif FN == 2
  { mpz_t z; char buf[UN * 20 + 3]; int i;
    vf_mpz_mk (z, UN, UN); for (i = 0; i < UN; i++) PTR (z)[i] = VF_CORNER[(i * 5 + 1) % 16] | 1;     /* concrete operand: the conversion is a chain of divisions, symbolic limbs run out of memory */
    mpz_get_str (buf, 10, z);
    CHECK (buf[0] >= '1' && buf[0] <= '9', "leading digit");
    mpz_clear (z); CHECK (vf_live == 0, "no block held"); }
#elif FN == 3
  { mpz_t z; vf_mpz_mk (z, 1, 0);
    if (SUB == 0) mpz_fib_ui (z, NV); else mpz_lucnum_ui (z, NV);
    CHECK (vf_mpz_wf (z) && SIZ (z) > 0, "result well formed and positive");
    mpz_clear (z); CHECK (vf_live == 0, "no block held"); }
#elif FN == 4
  { mpz_t g, s, t, a, b; unsigned long av = in64 (), bv = in64 ();
    ASSUME (av >= 1 && av < (1UL << VB) && bv >= 1 && bv < (1UL << VB));
    vf_mpz_mk (a, 1, 1); PTR (a)[0] = av; vf_mpz_mk (b, 1, 1); PTR (b)[0] = bv; vf_mpz_mk (g, 1, 0); vf_mpz_mk (s, 1, 0); vf_mpz_mk (t, 1, 0);
    mpz_gcdext (g, s, t, a, b);
    CHECK (vf_mpz_wf (g) && SIZ (g) == 1, "gcd positive"); CHECK (av % PTR (g)[0] == 0 && bv % PTR (g)[0] == 0, "gcd divides both operands");
    mpz_clear (g); mpz_clear (s); mpz_clear (t); mpz_clear (a); mpz_clear (b); CHECK (vf_live == 0, "no block held"); }
#elif FN == 5
  { static mp_limb_t a[NV], b[NV], r[2 * NV];
    int i;
    /* lowest limb of the first operand symbolic (all 2^64 values), the other limbs concrete corner values, exact products: with
       uninterpreted products the unbounded carry loops of the interpolation (MPN_INCR_U) have spurious run-away counterexamples */
    for (i = 0; i < NV; i++) { a[i] = i == 0 ? in64 () : VF_CORNER[(i * 5 + 1) % 16]; b[i] = VF_CORNER[(i * 3 + 2) % 16]; }
    if (SUB == 0) mpn_mul_n (r, a, b, NV); else mpn_sqr (r, a, NV);
    CHECK (VF_INC == 1, "operand drawn"); }
#endif
VF_MAIN_END
