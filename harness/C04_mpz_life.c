/* C04: object life cycle under the recording allocator (allocator contract asserted inside vf_realloc/vf_free, heap bounds by CBMC).
   FN 0 init/clear  1 init2(BITS)/clear  2 init_set(u)/init_set_ui/init_set_si/clear  3 realloc2(x,BITS)  4 _mpz_realloc(x,NEW)
      5 swap+clear both  6 limbs_write(N)+limbs_finish(XS)  7 limbs_modify(N) keeps limbs  8 roinit_n  9 set then realloc2 shrink/grow then set: value history independent
   SU signed size, AU extra alloc of x. */
#define VF_REC_ALLOC 1
#include "vh.h"
#define AB(x) ((x) < 0 ? -(x) : (x))
#define MX(a,b) ((a) > (b) ? (a) : (b))
#ifndef SU
#define SU 0
#endif
#ifndef AU
#define AU 0
#endif
#ifndef BITS
#define BITS 0
#endif
#ifndef NEW
#define NEW 1
#endif
#ifndef N
#define N 1
#endif
#ifndef XS
#define XS 1
#endif
#define W (MX (MX (AB (SU), N), MX (NEW, (BITS + 63) / 64)) + 2)
VF_MAIN_BEGIN
  mpz_t x, y; mp_limb_t m[W], t[W]; int i;
  VF_FIDELITY ();
#if FN == 0
  mpz_init (x); CHECK (vf_live == 1 && ALLOC (x) >= 1 && SIZ (x) == 0, "init: one block, value 0"); mpz_clear (x);
#elif FN == 1
  mpz_init2 (x, BITS); CHECK (vf_live == 1 && SIZ (x) == 0 && ALLOC (x) >= 1 && (unsigned long) ALLOC (x) * 64 >= BITS, "init2: room for BITS bits, value 0"); mpz_clear (x);
#elif FN == 2
  vf_mpz_mk (x, MX (1, AB (SU)) + AU, SU); vf_mag_get (m, W, x);
  mpz_init_set (y, x); CHECK (vf_mpz_wf (y) && SIZ (y) == SU && vf_mag_eq (y, m, W), "init_set copies the value"); mpz_clear (y);
  { unsigned long u = in64 (); long s = (long) in64 ();
    mpz_init_set_ui (y, u); CHECK (vf_mpz_wf (y) && SIZ (y) == (u != 0) && (u == 0 || PTR (y)[0] == u), "init_set_ui"); mpz_clear (y);
    mpz_init_set_si (y, s); CHECK (vf_mpz_wf (y) && SIZ (y) == (s > 0) - (s < 0) && (s == 0 || PTR (y)[0] == (s < 0 ? - (unsigned long) s : (unsigned long) s)), "init_set_si"); mpz_clear (y); }
  CHECK (SIZ (x) == SU && vf_mag_eq (x, m, W), "source unchanged"); mpz_clear (x);
#elif FN == 3 || FN == 4
  vf_mpz_mk (x, MX (1, AB (SU)) + AU, SU); vf_mag_get (m, W, x);
#if FN == 3
  mpz_realloc2 (x, BITS);
  { long na = MX (1, (BITS + 63) / 64);
#else
  _mpz_realloc (x, NEW);
  { long na = MX (1, NEW);
#endif
    CHECK (ALLOC (x) == na, "new allocation as documented");
    CHECK (vf_mpz_wf (x), "well formed after reallocation");
    if (AB (SU) <= na) CHECK (SIZ (x) == SU && vf_mag_eq (x, m, W), "value preserved when it fits");
    else CHECK (SIZ (x) == 0, "value set to 0 when it does not fit"); }
  mpz_clear (x);
#elif FN == 5
  vf_mpz_mk (x, MX (1, AB (SU)) + AU, SU); vf_mpz_mk (y, MX (1, AB (XS)), XS); vf_mag_get (m, W, x); vf_mag_get (t, W, y);
  mpz_swap (x, y);
  CHECK (vf_mpz_wf (x) && vf_mpz_wf (y) && SIZ (x) == XS && SIZ (y) == SU && vf_mag_eq (x, t, W) && vf_mag_eq (y, m, W), "swap exchanges values");
  mpz_clear (x); mpz_clear (y);
#elif FN == 6
  vf_mpz_mk (x, MX (1, AB (SU)) + AU, SU);
  { mp_ptr p = mpz_limbs_write (x, N); CHECK (ALLOC (x) >= N && p == PTR (x), "limbs_write: room for N limbs");
    for (i = 0; i < N; i++) { p[i] = in64 (); } for (i = 0; i < W; i++) m[i] = i < N ? p[i] : 0;
    mpz_limbs_finish (x, XS);      /* |XS| <= N by shape */
    for (i = AB (XS); i < W; i++) m[i] = 0;
    CHECK (vf_mpz_wf (x), "limbs_finish normalises"); CHECK (vf_mag_eq (x, m, W), "limbs_finish keeps the written limbs");
    CHECK (SIZ (x) == 0 || (SIZ (x) < 0) == (XS < 0), "limbs_finish sign"); }
  mpz_clear (x);
#elif FN == 7
  vf_mpz_mk (x, MX (1, AB (SU)) + AU, SU); vf_mag_get (m, W, x);
  { mp_ptr p = mpz_limbs_modify (x, N); CHECK (ALLOC (x) >= N && p == PTR (x), "limbs_modify: room for N limbs");
    for (i = 0; i < AB (SU) && i < N; i++) CHECK (p[i] == m[i], "limbs_modify keeps the old limbs");
    CHECK (SIZ (x) == SU, "limbs_modify keeps the size"); CHECK (mpz_limbs_read (x) == PTR (x), "limbs_read"); }
  mpz_clear (x);
#elif FN == 8
  { mp_limb_t a[N]; mpz_srcptr r; vf_fill (a, N); for (i = 0; i < W; i++) m[i] = i < N ? a[i] : 0;
    r = mpz_roinit_n (x, a, XS);  for (i = AB (XS); i < W; i++) m[i] = 0;
    CHECK (r == x && ALLOC (x) == 0 && PTR (x) == a, "roinit_n: no allocation, points at the caller's limbs");
    CHECK (vf_mag_eq (x, m, W) && (AB (SIZ (x)) == 0 || PTR (x)[AB (SIZ (x)) - 1] != 0), "roinit_n normalised value");
    CHECK (SIZ (x) == 0 || (SIZ (x) < 0) == (XS < 0), "roinit_n sign"); CHECK (vf_live == 0, "roinit_n allocates nothing"); }
#elif FN == 9
  vf_mpz_mk (x, MX (1, AB (SU)) + AU, SU); vf_mag_get (m, W, x);
  mpz_init (y);
  mpz_realloc2 (y, BITS);                 /* arbitrary allocation history of the destination */
  mpz_set (y, x);
  CHECK (vf_mpz_wf (y) && SIZ (y) == SU && vf_mag_eq (y, m, W), "set after realloc2");
  mpz_realloc2 (y, 64 * AB (SU));        /* shrink to fit */
  CHECK (vf_mpz_wf (y) && SIZ (y) == SU && vf_mag_eq (y, m, W), "shrink-to-fit keeps the value");
  mpz_realloc2 (y, 64 * AB (SU) + 130);  /* grow */
  CHECK (vf_mpz_wf (y) && SIZ (y) == SU && vf_mag_eq (y, m, W), "grow keeps the value");
  mpz_clear (x); mpz_clear (y);
#endif
  CHECK (vf_live == 0, "no block is held once every object is cleared");
VF_MAIN_END
