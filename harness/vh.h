/* common harness support: recorded nondeterminism, assume/check macros that work both under
   CBMC and in a native replay build (-DREPLAY). */
#ifndef VH_H
#define VH_H
#include <stdio.h>
#include <stdlib.h>
#include <string.h>
#include "mpir.h"
#include "gmp-impl.h"
#include "longlong.h"
#include "vf_asm.h"

#define VF_MAXIN 512
unsigned long VF_IN[VF_MAXIN];
unsigned long VF_INC = 0;

#ifdef REPLAY
static unsigned long vf_rv[VF_MAXIN]; static unsigned long vf_rn = 0;
static void vf_load (int argc, char **argv)
{ FILE *f; if (argc < 2) { puts ("usage: replay inputs.txt"); exit (4); }
  f = fopen (argv[1], "r"); if (!f) { puts ("no input file"); exit (4); }
  while (vf_rn < VF_MAXIN && fscanf (f, "%lu", &vf_rv[vf_rn]) == 1) vf_rn++;
  fclose (f); }
static unsigned long in64 (void)
{ unsigned long v = VF_INC < vf_rn ? vf_rv[VF_INC] : 0; VF_IN[VF_INC++] = v; return v; }
#define ASSUME(c) do { if (!(c)) { printf ("REPLAY-ASSUME-FAILED %s\n", #c); exit (3); } } while (0)
#define CHECK(c, msg) do { if (!(c)) { printf ("REPLAY-FAIL %s\n", msg); exit (1); } } while (0)
#define WITNESS_END() do { puts ("REPLAY-OK"); exit (0); } while (0)
#define VF_MAIN_BEGIN int main (int argc, char **argv) { vf_load (argc, argv);
#define VF_MAIN_END WITNESS_END (); return 0; }
#else
unsigned long nondet_ulong (void);
static unsigned long in64 (void)
{ unsigned long v = nondet_ulong (); VF_IN[VF_INC] = v; VF_INC = VF_INC + 1; return v; }
#define ASSUME(c) __CPROVER_assume (c)
#define CHECK(c, msg) __CPROVER_assert ((c), msg)
#define WITNESS_END() __CPROVER_assert (0, "WITNESS")
#define VF_MAIN_BEGIN int main (void) {
#define VF_MAIN_END WITNESS_END (); return 0; }
#endif

/* fidelity witness (probe P2): the encoding must see the real type sizes */
#define VF_FIDELITY() do { CHECK (sizeof (mp_limb_t) == 8, "fidelity: limb is 64 bit"); \
  CHECK (sizeof (UDItype) == 8, "fidelity: UDItype is 64 bit"); \
  CHECK (sizeof (UWtype) == 8, "fidelity: UWtype is 64 bit"); \
  CHECK (GMP_NUMB_BITS == 64, "fidelity: no nails"); } while (0)

typedef unsigned __int128 vf_u128;

/* D-PAT: corner table; a limb is CORNER[selector], selector symbolic with T bits (tables nest) */
static const unsigned long VF_CORNER[16] = { 0UL, 0xffffffffffffffffUL, 1UL, 0x8000000000000000UL,
  0xfffffffffffffffeUL, 0x7fffffffffffffffUL, 2UL, 0x8000000000000001UL,
  0x5555555555555555UL, 0xaaaaaaaaaaaaaaaaUL, 0x00000000ffffffffUL, 0xffffffff00000000UL,
  3UL, 0xfffffffffffffffdUL, 0x4000000000000000UL, 0x0000000100000000UL };
static unsigned long vf_pat (int t)
{ unsigned long s = in64 (); ASSUME (s < (1UL << t));
  /* explicit mux over constants keeps the formula small */
  { unsigned long r = 0; int k; for (k = 0; k < 16; k++) if (s == (unsigned long) k) r = VF_CORNER[k]; return r; } }
static void vf_fill_pat (mp_limb_t *p, long n, int t) { long i; for (i = 0; i < n; i++) p[i] = vf_pat (t); }

/* fill n limbs with recorded nondeterministic values */
static void vf_fill (mp_limb_t *p, long n) { long i; for (i = 0; i < n; i++) p[i] = in64 (); }

/* ---- fixed-width two's-complement reference arithmetic on W limbs (oracle side) ---- */
static void vf_tc_from_mag (mp_limb_t *t, int W, const mp_limb_t *m, long n, int neg)
{ int i; mp_limb_t c = 1;
  for (i = 0; i < W; i++) t[i] = i < n ? m[i] : 0;
  if (neg) for (i = 0; i < W; i++) { mp_limb_t x = ~t[i] + c; c = (c && x == 0); t[i] = x; } }
static void vf_tc_from_mpz (mp_limb_t *t, int W, mpz_srcptr z)
{ long n = ABSIZ (z); vf_tc_from_mag (t, W, PTR (z), n, SIZ (z) < 0); }
static void vf_tc_add (mp_limb_t *r, const mp_limb_t *a, const mp_limb_t *b, int W)
{ int i; mp_limb_t c = 0; for (i = 0; i < W; i++) { vf_u128 s = (vf_u128) a[i] + b[i] + c; r[i] = (mp_limb_t) s; c = (mp_limb_t) (s >> 64); } }
static void vf_tc_neg (mp_limb_t *r, const mp_limb_t *a, int W)
{ int i; mp_limb_t c = 1; for (i = 0; i < W; i++) { mp_limb_t x = ~a[i] + c; c = (c && x == 0); r[i] = x; } }
static void vf_tc_sub (mp_limb_t *r, const mp_limb_t *a, const mp_limb_t *b, int W)
{ int i; mp_limb_t c = 0; for (i = 0; i < W; i++) { vf_u128 s = (vf_u128) a[i] - b[i] - c; r[i] = (mp_limb_t) s; c = (mp_limb_t) (s >> 64) & 1; } }
static int vf_tc_eq (const mp_limb_t *a, const mp_limb_t *b, int W)
{ int i; for (i = 0; i < W; i++) if (a[i] != b[i]) return 0; return 1; }

/* well-formedness of an mpz (MPZ_CHECK_FORMAT transcribed) */
static int vf_mpz_wf (mpz_srcptr z)
{ long n = ABSIZ (z); if (ALLOC (z) < 1) return 0; if (n > ALLOC (z)) return 0;
  if (n > 0 && PTR (z)[n - 1] == 0) return 0; return 1; }

/* build an mpz with given alloc and signed size from recorded nondet limbs; limbs beyond
   |size| are arbitrary too; top limb assumed non-zero (validity predicate) */
static void vf_mpz_mk (mpz_ptr z, long alloc, long size)
{ long n = size < 0 ? -size : size, i;
  mp_limb_t *p = (mp_limb_t *) (*__gmp_allocate_func) (alloc * sizeof (mp_limb_t));
  for (i = 0; i < alloc; i++) p[i] = in64 ();
  if (n > 0) ASSUME (p[n - 1] != 0);
  ALLOC (z) = alloc; SIZ (z) = size; PTR (z) = p; }
#endif
