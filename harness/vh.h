/* common harness support: recorded nondeterminism, assume/check macros that work both under
   CBMC and in a native replay build (-DREPLAY). */
#ifndef VH_H
#define VH_H
#include <stdio.h>
#include <stdlib.h>
#include <string.h>
#include "mpir.h"
#include "gmp-impl.h"
#include "longlong.h"
#include "vf_asm.h"

#define VF_MAXIN 512
/* C15 frame hooks: a generated wrapper TU (props/C15.py) defines these before including the harness; default: nothing */
#ifndef VF_FRAME_BEGIN
#define VF_FRAME_BEGIN() do { } while (0)
#define VF_FRAME_END() do { } while (0)
#endif
unsigned long VF_IN[VF_MAXIN];
unsigned long VF_INC = 0;

#ifdef REPLAY
static unsigned long vf_rv[VF_MAXIN]; static unsigned long vf_rn = 0;
static void vf_load (int argc, char **argv)
{ FILE *f; if (argc < 2) { puts ("usage: replay inputs.txt"); exit (4); }
  f = fopen (argv[1], "r"); if (!f) { puts ("no input file"); exit (4); }
  while (vf_rn < VF_MAXIN && fscanf (f, "%lu", &vf_rv[vf_rn]) == 1) vf_rn++;
  fclose (f); }
static unsigned long in64 (void)
{ unsigned long v = VF_INC < vf_rn ? vf_rv[VF_INC] : 0; VF_IN[VF_INC++] = v; return v; }
#define ASSUME(c) do { if (!(c)) { printf ("REPLAY-ASSUME-FAILED %s\n", #c); exit (3); } } while (0)
#define CHECK(c, msg) do { if (!(c)) { printf ("REPLAY-FAIL %s\n", msg); exit (1); } } while (0)
#define WITNESS_END() do { puts ("REPLAY-OK"); exit (0); } while (0)
#define VF_MAIN_BEGIN int main (int argc, char **argv) { vf_load (argc, argv); VF_FRAME_BEGIN ();
#define VF_MAIN_END VF_FRAME_END (); WITNESS_END (); return 0; }
#else
unsigned long nondet_ulong (void);
static unsigned long in64 (void)
{ unsigned long v = nondet_ulong (); VF_IN[VF_INC] = v; VF_INC = VF_INC + 1; return v; }
#define ASSUME(c) __CPROVER_assume (c)
#define CHECK(c, msg) __CPROVER_assert ((c), msg)
#define WITNESS_END() __CPROVER_assert (0, "WITNESS")
#define VF_MAIN_BEGIN int main (void) { VF_FRAME_BEGIN ();
#define VF_MAIN_END VF_FRAME_END (); WITNESS_END (); return 0; }
#endif

/* ---- recording allocator (C04 contract; also keeps heap objects at concrete sizes under CBMC) ----
   Installed into the real __gmp_*_func pointers (what mp_set_memory_functions does) by VF_MAIN_BEGIN when the harness
   is compiled with -DVF_REC_ALLOC.  Under CBMC a request of 8k bytes (k <= VF_MAXL) is served by a malloc of that
   *concrete* size selected by a case split, so a data-dependent size becomes a choice among concrete objects and every
   access keeps its exact bounds check.  realloc/free assert the allocator contract: pointer is the block start and
   the size passed is the block's current size.  vf_live counts live blocks (leak / double-free obligations). */
#ifdef VF_REC_ALLOC
#ifndef VF_MAXL
#define VF_MAXL 12
#endif
static long vf_live = 0;
#ifdef REPLAY
static void *vf_alloc (size_t n)
{ size_t *p = (size_t *) malloc (n + 16); if (!p) exit (4); p[0] = n; p[1] = 0x5a5a5a5a; vf_live++; return (void *) (p + 2); }
static void vf_chk (void *o, size_t s, const char *w)
{ size_t *p = (size_t *) o - 2; if (p[1] != 0x5a5a5a5a || p[0] != s) { printf ("REPLAY-FAIL allocator contract: %s got size %lu for a block of %lu\n", w, (unsigned long) s, (unsigned long) p[0]); exit (1); } }
static void vf_free (void *o, size_t s) { vf_chk (o, s, "free"); ((size_t *) o - 2)[1] = 0; free ((size_t *) o - 2); vf_live--; }
static void *vf_realloc (void *o, size_t os, size_t ns)
{ void *p; vf_chk (o, os, "realloc"); p = vf_alloc (ns); memcpy (p, o, os < ns ? os : ns); vf_free (o, os); return p; }
#else
static void *vf_alloc (size_t n)
{ void *p = 0;
#define VF_TRY(k) if (p == 0 && (k) <= VF_MAXL && n == 8 * (k)) p = malloc (8 * (k));
  VF_TRY (1) VF_TRY (2) VF_TRY (3) VF_TRY (4) VF_TRY (5) VF_TRY (6) VF_TRY (7) VF_TRY (8) VF_TRY (9) VF_TRY (10) VF_TRY (11) VF_TRY (12)
  VF_TRY (13) VF_TRY (14) VF_TRY (15) VF_TRY (16) VF_TRY (17) VF_TRY (18) VF_TRY (19) VF_TRY (20) VF_TRY (21) VF_TRY (22) VF_TRY (23) VF_TRY (24)
#ifdef VF_ALLOC_BYTES
  /* byte-granular requests (strings): case split over 1..64 bytes so that the block has a concrete size */
#define VF_TRYB(k) if (p == 0 && n == (k)) p = malloc (k);
#define VF_TRYB8(k) VF_TRYB (k) VF_TRYB (k + 1) VF_TRYB (k + 2) VF_TRYB (k + 3) VF_TRYB (k + 4) VF_TRYB (k + 5) VF_TRYB (k + 6) VF_TRYB (k + 7)
  VF_TRYB8 (1) VF_TRYB8 (9) VF_TRYB8 (17) VF_TRYB8 (25) VF_TRYB8 (33) VF_TRYB8 (41) VF_TRYB8 (49) VF_TRYB8 (57)
  if (p == 0) p = malloc (n);
#else
  if (p == 0) { __CPROVER_assert (0, "harness bound: allocation request is a multiple of 8 bytes and at most VF_MAXL limbs"); __CPROVER_assume (0); }
#endif
  vf_live = vf_live + 1; return p; }
static void vf_free (void *o, size_t s)
{ __CPROVER_assert (__CPROVER_POINTER_OFFSET (o) == 0 && __CPROVER_OBJECT_SIZE (o) == s, "allocator contract: free gets block start and exact current size");
  free (o); vf_live = vf_live - 1; }
static void *vf_realloc (void *o, size_t os, size_t ns)
{ void *p;
  __CPROVER_assert (__CPROVER_POINTER_OFFSET (o) == 0 && __CPROVER_OBJECT_SIZE (o) == os, "allocator contract: realloc gets block start and exact current size");
  p = vf_alloc (ns);
  if (os % 8 == 0 && ns % 8 == 0 && os <= 8 * VF_MAXL && ns <= 8 * VF_MAXL)
    {
#define VF_CP(k) if ((k) < VF_MAXL && 8 * (k) + 8 <= os && 8 * (k) + 8 <= ns) ((unsigned long *) p)[k] = ((unsigned long *) o)[k];
      VF_CP (0) VF_CP (1) VF_CP (2) VF_CP (3) VF_CP (4) VF_CP (5) VF_CP (6) VF_CP (7) VF_CP (8) VF_CP (9) VF_CP (10) VF_CP (11)
      VF_CP (12) VF_CP (13) VF_CP (14) VF_CP (15) VF_CP (16) VF_CP (17) VF_CP (18) VF_CP (19) VF_CP (20) VF_CP (21) VF_CP (22) VF_CP (23)
    }
#ifdef VF_ALLOC_BYTES
  else if (os <= 64 || ns <= 64)
    {
#define VF_CPB(k) if ((k) < os && (k) < ns) ((unsigned char *) p)[k] = ((unsigned char *) o)[k];
#define VF_CPB8(k) VF_CPB (k) VF_CPB (k + 1) VF_CPB (k + 2) VF_CPB (k + 3) VF_CPB (k + 4) VF_CPB (k + 5) VF_CPB (k + 6) VF_CPB (k + 7)
      VF_CPB8 (0) VF_CPB8 (8) VF_CPB8 (16) VF_CPB8 (24) VF_CPB8 (32) VF_CPB8 (40) VF_CPB8 (48) VF_CPB8 (56)
    }
  else memcpy (p, o, os < ns ? os : ns);
#endif
  free (o); vf_live = vf_live - 1; return p; }
#endif
#define VF_INSTALL_ALLOC() do { __gmp_allocate_func = vf_alloc; __gmp_reallocate_func = vf_realloc; __gmp_free_func = vf_free; } while (0)
#undef VF_MAIN_BEGIN
#ifdef REPLAY
#define VF_MAIN_BEGIN int main (int argc, char **argv) { vf_load (argc, argv); VF_INSTALL_ALLOC (); VF_FRAME_BEGIN ();
#else
#define VF_MAIN_BEGIN int main (void) { VF_INSTALL_ALLOC (); VF_FRAME_BEGIN ();
#endif
#endif

/* glibc's <ctype.h> macros read (*__ctype_b_loc())[c]; CBMC has no body for it, so the "C" locale ASCII table is modelled here
   (bit values from <ctype.h>).  Native replays use the real libc. */
#if !defined (REPLAY) && !defined (VF_NO_CTYPE)
#include <ctype.h>
static unsigned short vf_ctype_tab[384];
static const unsigned short *vf_ctype_ptr = vf_ctype_tab + 128;
static int vf_ctype_init = 0;
const unsigned short **__ctype_b_loc (void)
{ if (!vf_ctype_init)
    { int c; vf_ctype_init = 1;
      for (c = 0; c < 128; c++)
        { unsigned short m = 0;
          if (c >= '0' && c <= '9') m |= _ISdigit | _ISxdigit | _ISalnum | _ISgraph | _ISprint;
          if (c >= 'A' && c <= 'Z') m |= _ISupper | _ISalpha | _ISalnum | _ISgraph | _ISprint;
          if (c >= 'a' && c <= 'z') m |= _ISlower | _ISalpha | _ISalnum | _ISgraph | _ISprint;
          if ((c >= 'A' && c <= 'F') || (c >= 'a' && c <= 'f')) m |= _ISxdigit;
          if (c == ' ' || (c >= 9 && c <= 13)) m |= _ISspace;
          if (c == ' ' || c == '\t') m |= _ISblank;
          if (c == ' ') m |= _ISprint;
          if (c < 32 || c == 127) m |= _IScntrl;
          if ((c > 32 && c < 48) || (c > 57 && c < 65) || (c > 90 && c < 97) || (c > 122 && c < 127)) m |= _ISpunct | _ISgraph | _ISprint;
          vf_ctype_tab[128 + c] = m; } }
  return &vf_ctype_ptr; }
#endif

/* libc raise() (used by __gmp_invalid_operation) has no body under CBMC: reaching it is the documented SIGFPE abort.
   Harnesses that expect it set vf_expect_raise. */
#ifndef REPLAY
static int vf_expect_raise = 0;
int raise (int sig) { __CPROVER_assert (vf_expect_raise, "raise(SIGFPE) reached only where an invalid operation is documented"); __CPROVER_assume (0); return 0; }
#endif

/* fidelity witness (probe P2): the encoding must see the real type sizes */
#define VF_FIDELITY() do { CHECK (sizeof (mp_limb_t) == 8, "fidelity: limb is 64 bit"); \
  CHECK (sizeof (UDItype) == 8, "fidelity: UDItype is 64 bit"); \
  CHECK (sizeof (UWtype) == 8, "fidelity: UWtype is 64 bit"); \
  CHECK (GMP_NUMB_BITS == 64, "fidelity: no nails"); } while (0)

typedef unsigned __int128 vf_u128;

/* D-PAT: corner table; a limb is CORNER[selector], selector symbolic with T bits (tables nest) */
static const unsigned long VF_CORNER[16] = { 0UL, 0xffffffffffffffffUL, 1UL, 0x8000000000000000UL,
  0xfffffffffffffffeUL, 0x7fffffffffffffffUL, 2UL, 0x8000000000000001UL,
  0x5555555555555555UL, 0xaaaaaaaaaaaaaaaaUL, 0x00000000ffffffffUL, 0xffffffff00000000UL,
  3UL, 0xfffffffffffffffdUL, 0x4000000000000000UL, 0x0000000100000000UL };
static unsigned long vf_pat (int t)
{ unsigned long s = in64 (); ASSUME (s < (1UL << t));
  /* explicit mux over constants keeps the formula small */
  { unsigned long r = 0; int k; for (k = 0; k < 16; k++) if (s == (unsigned long) k) r = VF_CORNER[k]; return r; } }
static void vf_fill_pat (mp_limb_t *p, long n, int t) { long i; for (i = 0; i < n; i++) p[i] = vf_pat (t); }

/* fill n limbs with recorded nondeterministic values */
static void vf_fill (mp_limb_t *p, long n) { long i; for (i = 0; i < n; i++) p[i] = in64 (); }

/* ---- fixed-width two's-complement reference arithmetic on W limbs (oracle side) ---- */
static void vf_tc_from_mag (mp_limb_t *t, int W, const mp_limb_t *m, long n, int neg)
{ int i; mp_limb_t c = 1;
  for (i = 0; i < W; i++) t[i] = i < n ? m[i] : 0;
  if (neg) for (i = 0; i < W; i++) { mp_limb_t x = ~t[i] + c; c = (c && x == 0); t[i] = x; } }
static void vf_tc_from_mpz (mp_limb_t *t, int W, mpz_srcptr z)
{ long n = ABSIZ (z); vf_tc_from_mag (t, W, PTR (z), n, SIZ (z) < 0); }
static void vf_tc_add (mp_limb_t *r, const mp_limb_t *a, const mp_limb_t *b, int W)
{ int i; mp_limb_t c = 0; for (i = 0; i < W; i++) { vf_u128 s = (vf_u128) a[i] + b[i] + c; r[i] = (mp_limb_t) s; c = (mp_limb_t) (s >> 64); } }
static void vf_tc_neg (mp_limb_t *r, const mp_limb_t *a, int W)
{ int i; mp_limb_t c = 1; for (i = 0; i < W; i++) { mp_limb_t x = ~a[i] + c; c = (c && x == 0); r[i] = x; } }
static void vf_tc_sub (mp_limb_t *r, const mp_limb_t *a, const mp_limb_t *b, int W)
{ int i; mp_limb_t c = 0; for (i = 0; i < W; i++) { vf_u128 s = (vf_u128) a[i] - b[i] - c; r[i] = (mp_limb_t) s; c = (mp_limb_t) (s >> 64) & 1; } }
static int vf_tc_eq (const mp_limb_t *a, const mp_limb_t *b, int W)
{ int i; for (i = 0; i < W; i++) if (a[i] != b[i]) return 0; return 1; }

/* well-formedness of an mpz (MPZ_CHECK_FORMAT transcribed) */
static int vf_mpz_wf (mpz_srcptr z)
{ long n = ABSIZ (z); if (ALLOC (z) < 1) return 0; if (n > ALLOC (z)) return 0;
  if (n > 0 && PTR (z)[n - 1] == 0) return 0; return 1; }

/* build an mpz with given alloc and signed size from recorded nondet limbs; limbs beyond
   |size| are arbitrary too; top limb assumed non-zero (validity predicate) */
static void vf_mpz_mk (mpz_ptr z, long alloc, long size)
{ long n = size < 0 ? -size : size, i;
  mp_limb_t *p = (mp_limb_t *) (*__gmp_allocate_func) (alloc * sizeof (mp_limb_t));
  for (i = 0; i < alloc; i++) p[i] = in64 ();
  if (n > 0) ASSUME (p[n - 1] != 0);
  ALLOC (z) = alloc; SIZ (z) = size; PTR (z) = p; }

/* ---- optional replacement of errno.c: harnesses that expect DIVIDE_BY_ZERO / SQRT_OF_NEGATIVE define VF_OWN_ERRNO
   (and do not link errno.c); vf_expect_exc is the set of exception kinds the oracle allows on this path:
   1 = divide by zero, 2 = sqrt of negative.  Reaching an exception ends the path (as the real abort does). */
#ifdef VF_OWN_ERRNO
int gmp_errno = 0;
static int vf_expect_exc = 0;
#ifdef REPLAY
#define VF_EXC_END() do { puts ("REPLAY-OK"); exit (0); } while (0)
#else
#define VF_EXC_END() do { __CPROVER_assert (0, "WITNESS"); __CPROVER_assume (0); } while (0)
#endif
void __gmp_exception (int e) { CHECK (0, "unexpected __gmp_exception"); VF_EXC_END (); }
void __gmp_divide_by_zero (void) { CHECK (vf_expect_exc & 1, "DIVIDE_BY_ZERO raised only where the manual says so"); VF_EXC_END (); }
void __gmp_sqrt_of_negative (void) { CHECK (vf_expect_exc & 2, "SQRT_OF_NEGATIVE raised only where the manual says so"); VF_EXC_END (); }
#define VF_NO_EXC_EXPECTED() CHECK (vf_expect_exc == 0, "documented exception was not raised")
#endif

/* magnitude helpers */
static int vf_mag_eq (mpz_srcptr z, const mp_limb_t *m, long n)
{ long i; while (n > 0 && m[n - 1] == 0) n--; if (ABSIZ (z) != n) return 0;
  for (i = 0; i < n; i++) if (PTR (z)[i] != m[i]) return 0; return 1; }
static void vf_mag_get (mp_limb_t *m, int W, mpz_srcptr z)
{ int i; for (i = 0; i < W; i++) m[i] = i < ABSIZ (z) ? PTR (z)[i] : 0; }
/* reference shifts on W-limb magnitudes by a (possibly symbolic) bit count */
static void vf_mag_shr (mp_limb_t *r, const mp_limb_t *a, int W, unsigned long s)
{ int i; unsigned long ls = s / 64, bs = s % 64;
  for (i = 0; i < W; i++) { mp_limb_t lo = i + ls < W ? a[i + ls] : 0, hi = i + ls + 1 < W ? a[i + ls + 1] : 0;
    r[i] = bs ? (lo >> bs) | (hi << (64 - bs)) : lo; } }
static void vf_mag_shl (mp_limb_t *r, const mp_limb_t *a, int W, unsigned long s)
{ int i; unsigned long ls = s / 64, bs = s % 64;
  for (i = 0; i < W; i++) { mp_limb_t hi = i >= ls ? a[i - ls] : 0, lo = i >= ls + 1 ? a[i - ls - 1] : 0;
    r[i] = bs ? (hi << bs) | (lo >> (64 - bs)) : hi; } }
static unsigned long vf_mag_ctz (const mp_limb_t *a, int W)
{ int i; unsigned long c = 0; for (i = 0; i < W; i++) { if (a[i]) return c + vf_bsf (a[i]); c += 64; } return c; }

/* mpq with given allocs/sizes: num signed size SN, den signed size SD (valid objects have SD > 0) */
static void vf_mpq_mk (mpq_ptr q, long an, long sn, long ad, long sd)
{ vf_mpz_mk (mpq_numref (q), an, sn); vf_mpz_mk (mpq_denref (q), ad, sd); }
static int vf_mpq_wf (mpq_srcptr q)
{ return vf_mpz_wf (mpq_numref (q)) && vf_mpz_wf (mpq_denref (q)) && SIZ (mpq_denref (q)) > 0; }
#endif
