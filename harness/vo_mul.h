/* oracle: schoolbook product of magnitudes, row-wise (first row stored, later rows accumulated),
   limb products through vf_uf_hi/vf_uf_lo: under CBMC in the D-UF domain these are the *same*
   uninterpreted functions the translated mulq uses, natively they are the real product. */
#ifndef VO_MUL_H
#define VO_MUL_H
static void vo_mul (mp_limb_t *p, const mp_limb_t *u, long un, const mp_limb_t *v, long vn)
{ long i, j;
  for (i = 0; i < un + vn; i++) p[i] = 0;
  for (j = 0; j < vn; j++)
    { mp_limb_t c = 0;
      for (i = 0; i < un; i++)
        { vf_u128 t = (((vf_u128) vf_uf_hi (u[i], v[j])) << 64 | vf_uf_lo (u[i], v[j])) + p[i + j] + c;
          p[i + j] = (mp_limb_t) t; c = (mp_limb_t) (t >> 64); }
      p[un + j] = c; } }
#endif
