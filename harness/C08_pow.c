/* C08: exact powers, the real mpz_pow_ui / mpz_ui_pow_ui / mpz_n_pow_ui (with mpn_mul_1, mpn_sqr, mpn_mul, mpn_lshift ...), D-SMALL.
   FN 0 mpz_pow_ui (r, b, e), 1 mpz_ui_pow_ui (r, b, e)
   base = sign * (Bv << BSH): Bv symbolic in [1, 2^BB) (SB != 0), BSH concrete (>= 64 gives whole zero low limbs, i.e. a two-limb base)
   EV concrete exponent (BB * EV <= 64 so that Bv^EV is exact in one limb on the oracle side); ALIAS 1: r == b (pow_ui)
   Oracle: Bv^EV by EV-1 one-limb multiplications, shifted left by BSH*EV bits; negative iff the base is negative and EV is odd;
   0^0 = 1, 0^e = 0. */
#define VF_REC_ALLOC 1
#ifndef VF_MAXL
#define VF_MAXL 24
#endif
#include "vh.h"
#ifndef BSH
#define BSH 0
#endif
#define W 12
VF_MAIN_BEGIN
  mpz_t r, b; mpz_ptr rp = r; unsigned long Bv = 0, p = 1; mp_limb_t P[W], X[W]; int i, bn = SB == 0 ? 0 : (BSH + BB - 1) / 64 + 1; long sb;
  VF_FIDELITY ();
  if (SB != 0) { Bv = in64 (); ASSUME (Bv >= 1 && Bv < (1UL << BB)); }
  for (i = 0; i < W; i++) X[i] = 0; X[0] = Bv; vf_mag_shl (P, X, W, BSH);
  { long n = bn; while (n > 0 && P[n - 1] == 0) n--; sb = SB < 0 ? -n : n;
    ASSUME (n == bn || FN == 1);   /* concrete size of the base object (top limb non-zero) */
    vf_mpz_mk (b, bn ? bn : 1, SB < 0 ? -bn : bn); for (i = 0; i < bn; i++) PTR (b)[i] = P[i]; }
  vf_mpz_mk (r, 1, 0);
  if (ALIAS == 1) rp = b;
  for (i = 0; i < EV; i++) p *= Bv;
  for (i = 0; i < W; i++) X[i] = 0; X[0] = p; vf_mag_shl (P, X, W, (unsigned long) BSH * EV);
#if FN == 0
  mpz_pow_ui (rp, b, EV);
#else
  ASSUME (BSH + BB <= 64 && SB >= 0);
  mpz_ui_pow_ui (rp, Bv << BSH, EV);
#endif
  CHECK (vf_mpz_wf (rp), "result well formed");
  if (EV == 0) CHECK (SIZ (rp) == 1 && PTR (rp)[0] == 1, "b^0 = 1 including 0^0");
  else if (SB == 0) CHECK (SIZ (rp) == 0, "0^e = 0");
  else { CHECK (vf_mag_eq (rp, P, W), "result magnitude is the exact power");
         CHECK ((SIZ (rp) < 0) == (SB < 0 && (EV & 1)), "sign of the power"); }
  if (rp != b) CHECK (SIZ (b) == (SB < 0 ? -bn : bn), "base unchanged");
  mpz_clear (r); mpz_clear (b); CHECK (vf_live == 0, "no block held");
VF_MAIN_END
