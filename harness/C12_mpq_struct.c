/* C12 (also C04/C05 shapes): structural mpq functions, D-FULL.
   FN 0 neg 1 abs 2 inv 3 set 4 set_z 5 set_si 6 set_ui 7 set_num 8 set_den 9 swap 10 mul_2exp 11 div_2exp 12 get_num 13 get_den
   SN signed size of src numerator, SD size of src denominator (>0); ALIAS 0 dst distinct, 1 dst==src;
   DN (signed), DD (>0): sizes of the distinct destination's stale content (allocs minimal); CNT shift count (2exp)
   ZS: signed size of the mpz operand (set_z/set_num/set_den/get_*). */
#define VF_OWN_ERRNO 1
#define VF_REC_ALLOC 1
#include "vh.h"
#define AB(x) ((x) < 0 ? -(x) : (x))
#define MX(a,b) ((a) > (b) ? (a) : (b))
#ifndef CNT
#define CNT 0
#endif
#ifndef ZS
#define ZS 0
#endif
#ifndef ZL
#define ZL 0
#endif
#ifndef LOWC
#define LOWC 1UL
#endif
#ifndef DN
#define DN 0
#endif
#ifndef DD
#define DD 1
#endif
#define W (MX (MX (AB (SN), SD), MX (AB (ZS), MX (AB (DN), DD))) + CNT / 64 + 2)
VF_MAIN_BEGIN
  mpq_t s, d; mpq_ptr sp = s, dp = d; mpz_t z;
  mp_limb_t sn[W], sd[W], en[W], ed[W], zn[W], dn0[W], dd0[W]; int eneg = 0, i, d0neg; long d0n, d0d;
  VF_FIDELITY ();
  vf_mpq_mk (s, MX (1, AB (SN)), SN, SD, SD);
  if (SN == 0) { ASSUME (SD == 1); PTR (mpq_denref (s))[0] = 1; }          /* canonical zero */
  if (ALIAS) dp = s; else vf_mpq_mk (d, MX (1, AB (DN)), DN, DD, DD);
  vf_mpz_mk (z, MX (1, AB (ZS)), ZS);
  vf_mag_get (sn, W, mpq_numref (s)); vf_mag_get (sd, W, mpq_denref (s)); vf_mag_get (zn, W, z);
  vf_mag_get (dn0, W, mpq_numref (dp)); vf_mag_get (dd0, W, mpq_denref (dp)); d0neg = SIZ (mpq_numref (dp)) < 0;
  for (i = 0; i < W; i++) { en[i] = sn[i]; ed[i] = sd[i]; } eneg = SN < 0;
  switch (FN) {
    case 0: mpq_neg (dp, sp); eneg = SN > 0; break;
    case 1: mpq_abs (dp, sp); eneg = 0; break;
    case 2: if (SN == 0) vf_expect_exc = 1; mpq_inv (dp, sp); VF_NO_EXC_EXPECTED ();
            for (i = 0; i < W; i++) { en[i] = sd[i]; ed[i] = sn[i]; } break;
    case 3: mpq_set (dp, sp); break;
    case 4: mpq_set_z (dp, z); for (i = 0; i < W; i++) { en[i] = zn[i]; ed[i] = i == 0; } eneg = ZS < 0; break;
    case 5: { long a = (long) in64 (); unsigned long b = in64 (); ASSUME (b != 0); mpq_set_si (dp, a, b);
              for (i = 0; i < W; i++) { en[i] = 0; ed[i] = 0; } en[0] = a < 0 ? - (unsigned long) a : a; eneg = a < 0; ed[0] = a == 0 ? 1 : b; } break;
    case 6: { unsigned long a = in64 (), b = in64 (); ASSUME (b != 0); mpq_set_ui (dp, a, b);
              for (i = 0; i < W; i++) { en[i] = 0; ed[i] = 0; } en[0] = a; eneg = 0; ed[0] = a == 0 ? 1 : b; } break;
    case 7: mpq_set_num (dp, z); for (i = 0; i < W; i++) { en[i] = zn[i]; ed[i] = dd0[i]; } eneg = ZS < 0; break;
    case 8: ASSUME (ZS > 0); mpq_set_den (dp, z); for (i = 0; i < W; i++) { en[i] = dn0[i]; ed[i] = zn[i]; } eneg = d0neg; break;
    case 9: ASSUME (!ALIAS); mpq_swap (dp, sp);
            CHECK (vf_mpq_wf (sp), "swap: src well formed");
            CHECK (vf_mag_eq (mpq_numref (sp), dn0, W) && vf_mag_eq (mpq_denref (sp), dd0, W) && (SIZ (mpq_numref (sp)) < 0) == d0neg, "swap: src holds old dst"); break;
    case 10: case 11:
      { mp_limb_t *l = FN == 10 ? sn : sd, *r = FN == 10 ? sd : sn; unsigned long sh; mpz_ptr rz = FN == 10 ? mpq_denref (s) : mpq_numref (s);
        /* shape concretisation (DESIGN R1): the operand that is shifted right gets ZL zero low limbs and the constant LOWC as
           its lowest non-zero limb, so that the data-dependent shift split (limbs skipped, count_trailing_zeros) is concrete;
           all other limbs stay symbolic */
        if (SN != 0) { for (i = 0; i < ZL; i++) PTR (rz)[i] = 0; PTR (rz)[ZL] = LOWC; vf_mag_get (r, W, rz); }
        /* canonical input: numerator and denominator are not both even */
        if (SN != 0) ASSUME ((sn[0] & 1) || (sd[0] & 1));
        vf_mag_get (dn0, W, mpq_numref (dp)); vf_mag_get (dd0, W, mpq_denref (dp));
        if (FN == 10) mpq_mul_2exp (dp, sp, CNT); else mpq_div_2exp (dp, sp, CNT);
        if (SN == 0) { for (i = 0; i < W; i++) { en[i] = 0; ed[i] = i == 0; } }
        else { sh = vf_mag_ctz (r, W); if (sh > CNT) sh = CNT;
               vf_mag_shr (FN == 10 ? ed : en, r, W, sh); vf_mag_shl (FN == 10 ? en : ed, l, W, CNT - sh); } } break;
    case 12: mpq_get_num (z, sp); CHECK (vf_mpz_wf (z) && vf_mag_eq (z, sn, W) && (SIZ (z) < 0) == (SN < 0), "get_num"); break;
    case 13: mpq_get_den (z, sp); CHECK (vf_mpz_wf (z) && vf_mag_eq (z, sd, W) && SIZ (z) > 0, "get_den"); break;
  }
  if (FN < 12) {
    CHECK (vf_mpz_wf (mpq_numref (dp)) && vf_mpz_wf (mpq_denref (dp)), "result limbs well formed");
    CHECK (SIZ (mpq_denref (dp)) > 0 || FN == 8, "denominator positive");
    CHECK (vf_mag_eq (mpq_numref (dp), en, W), "numerator magnitude exact");
    CHECK (vf_mag_eq (mpq_denref (dp), ed, W), "denominator magnitude exact");
    CHECK (SIZ (mpq_numref (dp)) == 0 || (SIZ (mpq_numref (dp)) < 0) == eneg, "numerator sign");
  }
  if (dp != sp && FN != 9) {
    CHECK (SIZ (mpq_numref (sp)) == SN && SIZ (mpq_denref (sp)) == SD, "source sizes unchanged");
    CHECK (vf_mag_eq (mpq_numref (sp), sn, W) && vf_mag_eq (mpq_denref (sp), sd, W), "source unchanged"); }
VF_MAIN_END
