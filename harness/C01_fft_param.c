/* C01: FFT multiplication parameter arithmetic (domain D-SHAPE (b): operand lengths symbolic, FFT leaves = contract stubs).
   FN 0: the real mpn_mul_trunc_sqrt2 (fft/mul_trunc_sqrt2.c) for a concrete (DEPTH, WW) and *symbolic* operand lengths n1, n2
         (SQR 1: i1 == i2, n1 == n2), every leaf it calls replaced by a stub that checks the leaf's documented contract:
           - split_bits/combine_bits get the same chunk width, coefficient length limbs = n*w/64 and the exact lengths;
           - the transform gets an even trunc with 2n < trunc <= 4n (fft_trunc_sqrt2.c: "trunc must be divisible by 2 and > 2n");
           - mpn_mulmod_2expp1_basecase (x, y, z, c, b, t): b == n*w and "c & 2 is the top bit of y, c & 1 is the top bit of z"
             (mulmod_2expp1_basecase.c), where the top limbs were just normalised to 0/1 by the normmod stub;
           - the inverse transform of length 4n is undone by a division by 2^(depth+2);
           - no wrap-around mod 2^(nw)+1: with chunk width b, some product coefficient is a sum of m = min(j1,j2)-2 products of
             two full b-bit chunks, so m*(2^b-1)^2 <= 2^(nw) is *necessary* for a correct product; it is checked in the
             division-free form "2b <= nw and m <= 2^(nw-2b)" (equivalent direction proved in DESIGN.md section 4 C01.3).
         Caller's guarantee assumed: j1 + j2 - 1 <= 4n for the chunk width the dispatcher computes ((n*w-(depth+1))/2).
   FN 1 (not registered: no verdict in 300 s for lengths up to 2^12; the dispatcher is checked over length ranges by C15_calls.c FN 0 instead):
         the real mpn_mul_fft_main (fft/mul_fft_main.c) for symbolic n1, n2 <= 2^LGMAX limbs with both workers stubbed: the
         (depth, w) it hands over makes n*w a multiple of 64, gives a chunk width >= 1 and a transform that fits
         (j1 + j2 - 1 <= 4n), i.e. exactly the guarantee FN 0 assumes. */
#include "vh.h"
#ifdef REPLAY
#define W_OK(p, n) 1
#define __CPROVER_same_object_or_1(a, b) 1
#else
#define __CPROVER_same_object_or_1(a, b) __CPROVER_same_object ((a), (b))
#define W_OK(p, n) __CPROVER_w_ok ((p), (n))
#endif
static mp_limb_t dummy1[1], dummy2[1], g_r[1];
static unsigned long g_pool, g_pk, g_n, g_w, g_depth, g_nw, g_limbs, g_bits, g_splits, g_n1, g_n2, g_j[2], g_comb, g_mulmods, g_divs;

#if FN == 0
/* The worker's two TMP blocks hold the coefficient pointers and the coefficients in one area.  CBMC models an alloca/malloc of a
   byte count as a char array, and every load through a pointer that was itself loaded from that array then becomes a
   symbolic-offset byte_extract (measured: 5.4M variables, 7 GB at depth 2).  The request is therefore served from a static
   array of pointer-sized words (same layout, element-aligned accesses); the requested length is recorded and every coefficient
   a leaf receives must lie inside the block it was carved from. */
#define VF_NN (1UL << DEPTH)
#define VF_SZ (VF_NN * WW / 64 + 1)
#define VF_CAP (4 * (VF_NN + VF_NN * VF_SZ) + 5 * VF_SZ + 8)     /* harness capacity: a few words more than the worker is known to need */
static mp_limb_t *vf_area[2][VF_CAP]; static unsigned long vf_req[2], vf_nreq;
static mp_limb_t **vf_take (unsigned long n)
{ CHECK (vf_nreq < 2 && n <= VF_CAP, "harness bound: at most two temporary blocks of at most VF_CAP words");
  vf_req[vf_nreq] = n; return vf_area[vf_nreq++]; }
static int vf_in_block (mp_srcptr t, unsigned long len)
{ mp_srcptr b0 = (mp_srcptr) vf_area[0], b1 = (mp_srcptr) vf_area[1];
  return (__CPROVER_same_object_or_1 (t, b0) && t >= b0 && t + len <= b0 + vf_req[0]) || (vf_nreq == 2 && __CPROVER_same_object_or_1 (t, b1) && t >= b1 && t + len <= b1 + vf_req[1]); }
#undef TMP_BALLOC_MP_PTRS
#define TMP_BALLOC_MP_PTRS(n) vf_take (n)
#include "fft/mul_trunc_sqrt2.c"
void mpn_zero (mp_ptr p, mp_size_t n)
{ if (p == g_r) CHECK (n == (mp_size_t) (g_n1 + g_n2), "the product area of n1+n2 limbs is cleared");     /* r1 is not modelled as memory: only its length matters here */
  else CHECK (n == (mp_size_t) g_limbs + 1 && vf_in_block (p, n), "mpn_zero clears one coefficient of limbs+1 limbs inside the temporary block"); }
mp_size_t mpir_fft_split_bits (mp_ptr *poly, mp_srcptr limbs, mp_size_t total_limbs, mp_bitcnt_t bits, mp_size_t output_limbs)
{ mp_size_t len;
  CHECK (bits >= 1, "chunk width is positive");
  CHECK (output_limbs == g_limbs && output_limbs * 64 == g_nw, "coefficients have n*w/64 limbs");
  CHECK (total_limbs == (g_splits == 0 ? g_n1 : g_n2), "split_bits gets the operand's length");
  if (g_splits) CHECK (bits == g_bits, "both operands are cut with the same chunk width"); else g_bits = bits;
  len = (64 * total_limbs - 1) / bits + 1;
  CHECK (len <= 4 * g_n, "the chunks fit the 4n coefficient pointers");
  g_j[g_splits] = len; g_splits++;
  return len; }
void mpir_fft_combine_bits (mp_ptr res, const mp_ptr *poly, long length, mp_bitcnt_t bits, mp_size_t output_limbs, mp_size_t total_limbs)
{ unsigned long j1 = g_j[0], j2 = SQR ? g_j[0] : g_j[1];
  CHECK (bits == g_bits, "combine_bits uses the chunk width the operands were cut with");
  CHECK (output_limbs == g_limbs, "combine_bits gets the coefficient length");
  CHECK (total_limbs == g_n1 + g_n2, "the product has n1+n2 limbs");
  CHECK (length == j1 + j2 - 1, "the product polynomial has j1+j2-1 coefficients");
  g_comb++; }
static void vf_tr (mp_ptr *ii, mp_size_t n, mp_bitcnt_t w, mp_size_t trunc)
{ CHECK (n == g_n && w == g_w, "transform gets (n, w)");
  CHECK (trunc > 2 * n && trunc % 2 == 0 && trunc <= 4 * n, "trunc is even and 2n < trunc <= 4n"); }
void mpir_fft_trunc_sqrt2 (mp_ptr *ii, mp_size_t n, mp_bitcnt_t w, mp_ptr *t1, mp_ptr *t2, mp_ptr *temp, mp_size_t trunc) { vf_tr (ii, n, w, trunc); }
void mpir_ifft_trunc_sqrt2 (mp_ptr *ii, mp_size_t n, mp_bitcnt_t w, mp_ptr *t1, mp_ptr *t2, mp_ptr *temp, mp_size_t trunc) { vf_tr (ii, n, w, trunc); }
void mpn_normmod_2expp1 (mp_ptr t, mp_size_t limbs)
{ CHECK (limbs == g_limbs && vf_in_block (t, limbs + 1), "normmod gets a coefficient of limbs+1 limbs inside the temporary block");
  t[limbs] = (g_pool >> (g_pk++ & 63)) & 1; }       /* fully reduced: the top limb is 0 or 1, taken from an arbitrary 64-bit pattern */
int mpn_mulmod_2expp1_basecase (mp_ptr xp, mp_srcptr yp, mp_srcptr zp, int c, mpir_ui b, mp_ptr tp)
{ CHECK (b == g_nw, "pointwise products are taken mod 2^(n*w)+1");
  CHECK (vf_in_block (xp, g_limbs + 1) && vf_in_block (yp, g_limbs + 1) && vf_in_block (zp, g_limbs + 1) && vf_in_block (tp, 2 * g_limbs), "mulmod operands, result and scratch lie inside the temporary block");
  CHECK (yp[g_limbs] <= 1 && zp[g_limbs] <= 1, "pointwise operands are fully reduced");
  CHECK (c == 2 * (int) yp[g_limbs] + (int) zp[g_limbs], "c & 2 is the top bit of y and c & 1 the top bit of z (mulmod_2expp1_basecase.c)");
  g_mulmods++; return (int) ((g_pool >> (g_pk++ & 63)) & 1); }
void mpn_div_2expmod_2expp1 (mp_ptr t, mp_srcptr i1, mp_size_t limbs, mp_bitcnt_t d)
{ CHECK (limbs == g_limbs, "div_2expmod gets the coefficient length");
  CHECK (d == g_depth + 2, "the inverse transform of length 4n = 2^(depth+2) is undone by dividing by 2^(depth+2)");
  g_divs++; }
#else
static void vf_worker (mp_size_t n1, mp_size_t n2, mp_bitcnt_t depth, mp_bitcnt_t w, int mfa)
{ unsigned long n, nw, bits, j1, j2;
  CHECK (n1 == g_n1 && n2 == g_n2, "the worker gets the operand lengths");
  CHECK (depth >= 1 && depth <= 40 && w >= 1 && w <= (1UL << 20), "depth and w are in range");
  n = 1UL << depth; nw = n * w;
  CHECK (nw % 64 == 0, "n*w is a whole number of limbs");
  CHECK (nw > depth + 2, "chunk width (n*w-(depth+1))/2 is at least 1");
  bits = (nw - (depth + 1)) / 2;
  j1 = (64 * g_n1 - 1) / bits + 1; j2 = (64 * g_n2 - 1) / bits + 1;
  CHECK (j1 + j2 - 1 <= 4 * n, "the product polynomial fits the transform length 4n");
  if (!mfa) CHECK (depth < 11, "mul_trunc_sqrt2 is used below depth 11");
  g_splits++; }
void mpn_mul_trunc_sqrt2 (mp_ptr r1, mp_srcptr i1, mp_size_t n1, mp_srcptr i2, mp_size_t n2, mp_bitcnt_t depth, mp_bitcnt_t w) { vf_worker (n1, n2, depth, w, 0); }
void mpn_mul_mfa_trunc_sqrt2 (mp_ptr r1, mp_srcptr i1, mp_size_t n1, mp_srcptr i2, mp_size_t n2, mp_bitcnt_t depth, mp_bitcnt_t w) { vf_worker (n1, n2, depth, w, 1); }
#endif


VF_MAIN_BEGIN
  unsigned long n1 = in64 (), n2 = in64 ();
  VF_FIDELITY ();
  g_pool = in64 ();
#if FN == 0
  { unsigned long bs, j1, j2, m; mp_ptr r;
    g_depth = DEPTH; g_w = WW; g_n = 1UL << DEPTH; g_nw = g_n * g_w; g_limbs = g_nw / 64;
    ASSUME (g_nw % 64 == 0);
    if (SQR) n2 = n1;
    ASSUME (n1 >= 1 && n2 >= 1 && n1 <= 100000 && n2 <= 100000);
    bs = (g_nw - (DEPTH + 1)) / 2;                                   /* the dispatcher's chunk width */
    ASSUME ((64 * n1 - 1) / bs + 1 + (64 * n2 - 1) / bs + 1 - 1 <= 4 * g_n);   /* caller's guarantee (checked by FN 1) */
    g_n1 = n1; g_n2 = n2;
    r = g_r;
    mpn_mul_trunc_sqrt2 (r, dummy1, n1, SQR ? dummy1 : dummy2, n2, DEPTH, WW);
    CHECK (g_splits == (SQR ? 1 : 2) && g_comb == 1, "operands are cut and the product is recombined");
    j1 = g_j[0]; j2 = SQR ? g_j[0] : g_j[1];
    CHECK (g_mulmods >= j1 + j2 - 1, "every coefficient of the product polynomial is multiplied");
    CHECK (g_divs >= j1 + j2 - 1, "every coefficient of the product polynomial is rescaled");
    CHECK (2 * g_bits <= g_nw, "a product of two chunks fits below 2^(n*w)");
    m = (j1 < j2 ? j1 : j2);
    if (m >= 3 && 3 * g_bits > g_nw + 1 && g_nw - 2 * g_bits < 62)
      CHECK (m - 2 <= (1UL << (g_nw - 2 * g_bits)), "no coefficient of the product polynomial can wrap mod 2^(n*w)+1");
  }
#else
  ASSUME (n1 >= 1 && n2 >= 1 && n1 <= (1UL << LGMAX) && n2 <= (1UL << LGMAX));
  ASSUME ((64 * n1 - 1) / 28 + 1 + (64 * n2 - 1) / 28 + 1 - 1 > 128);    /* the function's own ASSERT: sizes above the FFT threshold */
  g_n1 = n1; g_n2 = n2;
  mpn_mul_fft_main (dummy1, dummy1, n1, dummy2, n2);
  CHECK (g_splits == 1, "exactly one worker is called");
#endif
VF_MAIN_END
