/* C02/C05: rounding layers over the truncating core, D-FULL with a contract stub for the core.
   FN 0 fdiv_q 1 fdiv_r 2 fdiv_qr 3 cdiv_q 4 cdiv_r 5 cdiv_qr 6 mod
   The real layer is executed; mpz_tdiv_qr / mpz_tdiv_r are contract stubs: they check that they are handed the original
   dividend and divisor *values* (so a clobbered or wrong operand is caught at the call), that quotient and remainder are
   different objects, read their inputs before writing, and return an arbitrary (Q,R) restricted only by facts that follow
   from true division: sign(Q)=sign(n)sign(d), sign(R)=sign(n), |R|<|D|, |Q|<=|N|, and Q=0,R=N when |N|<|D| by size.
   The oracle states the documented relation to the truncated result: floor: R!=0 and signs differ -> Q-1, R+D;
   ceil: R!=0 and signs equal -> Q+1, R-D; mod: R if R>=0 else R+|D|.
   SN, SD signed sizes; SQ, SR sizes of the stub's Q and R (shape); ALIAS: 0 none 1 q==n 2 q==d 3 r==n 4 r==d 5 q==n,r==d 6 q==d,r==n
   (for one-output functions only 0,1,2 with the single output in the q role). */
#define VF_OWN_ERRNO 1
#define VF_REC_ALLOC 1
#include "vh.h"
#define AB(x) ((x) < 0 ? -(x) : (x))
#define MX(a,b) ((a) > (b) ? (a) : (b))
#define W (MX (AB (SN), AB (SD)) + 2)
static mp_limb_t N0[W], D0[W], Qm[W], Rm[W]; static int stub_calls = 0;
static void put (mpz_ptr z, const mp_limb_t *m, long n, int neg)
{ long i; if (n > 0) { MPZ_REALLOC (z, n); for (i = 0; i < n; i++) PTR (z)[i] = m[i]; } SIZ (z) = neg ? -n : n; }
static void core (mpz_ptr q, mpz_ptr r, mpz_srcptr n, mpz_srcptr d)
{ stub_calls++;
  if (SIZ (d) == 0) __gmp_divide_by_zero ();
  CHECK (SIZ (n) == SN && vf_mag_eq (n, N0, W), "core receives the original dividend value");
  CHECK (SIZ (d) == SD && vf_mag_eq (d, D0, W), "core receives the original divisor value");
  if (q) put (q, Qm, SQ, (SN < 0) != (SD < 0));
  if (r) put (r, Rm, SR, SN < 0); }
void mpz_tdiv_qr (mpz_ptr q, mpz_ptr r, mpz_srcptr n, mpz_srcptr d) { CHECK (q != r, "quotient and remainder are different objects"); core (q, r, n, d); }
void mpz_tdiv_r (mpz_ptr r, mpz_srcptr n, mpz_srcptr d) { core (0, r, n, d); }
void mpz_tdiv_q (mpz_ptr q, mpz_srcptr n, mpz_srcptr d) { core (q, 0, n, d); }
static int mag_lt (const mp_limb_t *a, const mp_limb_t *b) { int i; for (i = W - 1; i >= 0; i--) if (a[i] != b[i]) return a[i] < b[i]; return 0; }
VF_MAIN_BEGIN
  mpz_t n, d, q, r; mpz_ptr qp = q, rp = r; mp_limb_t tq[W], tr[W], td[W], eq[W], er[W], one[W], t[W]; int i, adj, two = (FN == 2 || FN == 5), wantq = (FN == 0 || FN == 3 || two), wantr = !wantq || two;
  VF_FIDELITY ();
  vf_mpz_mk (n, MX (1, AB (SN)), SN); vf_mpz_mk (d, MX (1, AB (SD)), SD);
  vf_mag_get (N0, W, n); vf_mag_get (D0, W, d);
  for (i = 0; i < W; i++) { Qm[i] = i < SQ ? in64 () : 0; Rm[i] = i < SR ? in64 () : 0; one[i] = i == 0; }
  if (SQ) ASSUME (Qm[SQ - 1] != 0); if (SR) ASSUME (Rm[SR - 1] != 0);
  if (SD != 0) { ASSUME (mag_lt (Rm, D0)); ASSUME (!mag_lt (N0, Qm)); ASSUME (!mag_lt (N0, Rm)); }
  if (AB (SN) < AB (SD)) { ASSUME (SQ == 0 && SR == AB (SN)); for (i = 0; i < W; i++) ASSUME (Rm[i] == N0[i]); }
  if (SD == 0) vf_expect_exc = 1;
  vf_mpz_mk (q, 1, 0); vf_mpz_mk (r, 1, 0);
  if (two) { if (ALIAS == 1 || ALIAS == 5) qp = n; if (ALIAS == 2 || ALIAS == 6) qp = d; if (ALIAS == 3 || ALIAS == 6) rp = n; if (ALIAS == 4 || ALIAS == 5) rp = d; }
  else if (wantq) { if (ALIAS == 1) qp = n; if (ALIAS == 2) qp = d; }
  else { if (ALIAS == 1) rp = n; if (ALIAS == 2) rp = d; }
  switch (FN) {
    case 0: mpz_fdiv_q (qp, n, d); break; case 1: mpz_fdiv_r (rp, n, d); break; case 2: mpz_fdiv_qr (qp, rp, n, d); break;
    case 3: mpz_cdiv_q (qp, n, d); break; case 4: mpz_cdiv_r (rp, n, d); break; case 5: mpz_cdiv_qr (qp, rp, n, d); break;
    case 6: mpz_mod (rp, n, d); break; }
  VF_NO_EXC_EXPECTED ();
  CHECK (stub_calls == 1, "the truncating core is used once");
  vf_tc_from_mag (tq, W, Qm, SQ, (SN < 0) != (SD < 0)); vf_tc_from_mag (tr, W, Rm, SR, SN < 0); vf_tc_from_mag (td, W, D0, AB (SD), SD < 0);
  for (i = 0; i < W; i++) { eq[i] = tq[i]; er[i] = tr[i]; }
  if (FN <= 2) { adj = SR != 0 && ((SN < 0) != (SD < 0)); if (adj) { vf_tc_sub (eq, tq, one, W); vf_tc_add (er, tr, td, W); } }
  else if (FN <= 5) { adj = SR != 0 && ((SN < 0) == (SD < 0)); if (adj) { vf_tc_add (eq, tq, one, W); vf_tc_sub (er, tr, td, W); } }
  else { if (SR != 0 && SN < 0) { if (SD < 0) vf_tc_sub (er, tr, td, W); else vf_tc_add (er, tr, td, W); } }
  if (wantq) { CHECK (vf_mpz_wf (qp), "quotient well formed"); vf_tc_from_mpz (t, W, qp); CHECK (vf_tc_eq (t, eq, W), "quotient rounded as documented"); }
  if (wantr) { CHECK (vf_mpz_wf (rp), "remainder well formed"); vf_tc_from_mpz (t, W, rp); CHECK (vf_tc_eq (t, er, W), "remainder as documented"); }
  if (qp != n && rp != n) CHECK (SIZ (n) == SN && vf_mag_eq (n, N0, W), "dividend unchanged");
  if (qp != d && rp != d) CHECK (SIZ (d) == SD && vf_mag_eq (d, D0, W), "divisor unchanged");
  mpz_clear (n); mpz_clear (d); mpz_clear (q); mpz_clear (r); CHECK (vf_live == 0, "no block held after clearing every object");
VF_MAIN_END
