/* C01: mpn_mul_1 / mpn_addmul_1 / mpn_submul_1 (FN 0/1/2), N limbs, multiplier and all limbs symbolic, D-UF. ALIAS 0 separate 1 rp==up */
#include "vh.h"
VF_MAIN_BEGIN
  mp_limb_t u[N], r[N], u0[N], r0[N], b, ret, c = 0; int i; mp_limb_t *rp = ALIAS ? u : r;
  VF_FIDELITY ();
  vf_fill (u, N); vf_fill (r, N); b = in64 ();
  for (i = 0; i < N; i++) { u0[i] = u[i]; r0[i] = rp[i]; }
  ret = FN == 0 ? mpn_mul_1 (rp, u, N, b) : FN == 1 ? mpn_addmul_1 (rp, u, N, b) : mpn_submul_1 (rp, u, N, b);
  for (i = 0; i < N; i++)
    { vf_u128 p = (((vf_u128) vf_uf_hi (u0[i], b)) << 64 | vf_uf_lo (u0[i], b)) + c;
      if (FN == 0) { CHECK (rp[i] == (mp_limb_t) p, "mul_1 limb"); c = (mp_limb_t) (p >> 64); }
      else if (FN == 1) { p += r0[i]; CHECK (rp[i] == (mp_limb_t) p, "addmul_1 limb"); c = (mp_limb_t) (p >> 64); }
      else { mp_limb_t lo = (mp_limb_t) p, d = r0[i] - lo; CHECK (rp[i] == d, "submul_1 limb"); c = (mp_limb_t) (p >> 64) + (r0[i] < lo); } }
  CHECK (ret == c, "returned high limb");
  if (!ALIAS) for (i = 0; i < N; i++) CHECK (u[i] == u0[i], "source unchanged");
VF_MAIN_END
