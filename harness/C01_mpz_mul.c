/* C01: mpz multiplication layer, D-UF. FN 0 mpz_mul 1 mul_ui 2 mul_si 3 addmul 4 submul 5 addmul_ui 6 submul_ui
   SU, SV signed sizes of the factors (SV ignored for _ui/_si: multiplier symbolic), SW signed size of the accumulator (FN>=3)
   ALIAS 0 distinct, 1 w==u, 2 w==v, 3 u==v, 4 all same (mul only); AW alloc of distinct w for mul */
#include "vh.h"
#include "vo_mul.h"
#define AB(x) ((x) < 0 ? -(x) : (x))
#define MX(a,b) ((a) > (b) ? (a) : (b))
#ifndef SW
#define SW 0
#endif
#define NV (FN == 1 || FN == 2 || FN == 5 || FN == 6 ? 1 : AB (SV))
#define W (MX (AB (SU) + NV, AB (SW)) + 2)
VF_MAIN_BEGIN
  mpz_t u, v, w; mpz_ptr up = u, vp = v, wp = w;
  mp_limb_t mu[AB (SU) + 1], mv[NV + 1], p[AB (SU) + NV + 1], tp[W], tw0[W], te[W], tw[W]; int i, neg, un, vn; unsigned long ui = 0; long si = 0;
  VF_FIDELITY ();
  vf_mpz_mk (u, MX (1, AB (SU)), SU);
#if FN == 0 || FN == 3 || FN == 4
  if (ALIAS == 3 || ALIAS == 4) vp = u; else vf_mpz_mk (v, MX (1, AB (SV)), SV);
#endif
#if FN == 0
  if (ALIAS == 1 || ALIAS == 4) wp = u; else if (ALIAS == 2) wp = v; else vf_mpz_mk (w, AW, 0);
#elif FN == 1 || FN == 2
  if (ALIAS == 1) wp = u; else vf_mpz_mk (w, AW, 0);
#else
  vf_mpz_mk (w, MX (1, AB (SW)) + (AW), SW);
#endif
  un = AB (SU); for (i = 0; i < un; i++) mu[i] = PTR (up)[i];
#if FN == 0 || FN == 3 || FN == 4
  vn = AB (SIZ (vp)); for (i = 0; i < vn; i++) mv[i] = PTR (vp)[i]; neg = (SIZ (up) < 0) != (SIZ (vp) < 0);
#elif FN == 2
  si = (long) in64 (); vn = si != 0; mv[0] = si < 0 ? - (unsigned long) si : (unsigned long) si; neg = (SU < 0) != (si < 0);
#else
  ui = in64 (); vn = ui != 0; mv[0] = ui; neg = SU < 0;
#endif
  vf_tc_from_mpz (tw0, W, wp);
  if (un == 0 || vn == 0) { for (i = 0; i < W; i++) tp[i] = 0; }
  else { vo_mul (p, mu, un, mv, vn);
         /* true of real products of operands with non-zero top limbs, not implied by the UF abstraction:
            the product has at most one leading zero limb */
         ASSUME (p[un + vn - 1] != 0 || p[un + vn - 2] != 0);
         vf_tc_from_mag (tp, W, p, un + vn, neg); }
  switch (FN) {
    case 0: mpz_mul (wp, up, vp); break; case 1: mpz_mul_ui (wp, up, ui); break; case 2: mpz_mul_si (wp, up, si); break;
    case 3: mpz_addmul (wp, up, vp); break; case 4: mpz_submul (wp, up, vp); break;
    case 5: mpz_addmul_ui (wp, up, ui); break; case 6: mpz_submul_ui (wp, up, ui); break; }
  if (FN <= 2) for (i = 0; i < W; i++) te[i] = tp[i];
  else if (FN == 3 || FN == 5) vf_tc_add (te, tw0, tp, W);
  else vf_tc_sub (te, tw0, tp, W);
  CHECK (vf_mpz_wf (wp), "result well formed");
  CHECK (AB (SIZ (wp)) <= W - 1, "result size bound");
  vf_tc_from_mpz (tw, W, wp);
  CHECK (vf_tc_eq (tw, te, W), "exact product / accumulate");
  if (wp != up) { CHECK (SIZ (up) == SU, "u size unchanged"); for (i = 0; i < un; i++) CHECK (PTR (up)[i] == mu[i], "u unchanged"); }
VF_MAIN_END
