/* C16: mpz_remove, real function over specification stubs for mpz_mul / mpz_tdiv_qr (small-value domain).
   SGN sign of op; |op| < 2^VB symbolic; f symbolic in [FLO, FHI]; ALIAS rop==op.  Oracle: repeated exact division. */
#define VF_OWN_ERRNO 1
#define VF_REC_ALLOC 1
#define VF_MAXL 2
#define VS_MUL 1
#define VS_TDIV 1
#define VS_BITS 26
#include "vh.h"
#include "vs_small.h"
#ifndef VB
#define VB 10
#endif
VF_MAIN_BEGIN
  mpz_t op, f, r; mpz_ptr rp = r; unsigned long a = in64 (), ff = in64 (), cnt = 0, v, ret; int i;
  VF_FIDELITY ();
  ASSUME (a < (1UL << VB)); if (SGN == 0) ASSUME (a == 0); else ASSUME (a != 0);
  ASSUME (ff >= FLO && ff <= FHI);
  vf_mpz_mk (op, 1, SGN); PTR (op)[0] = a; vf_mpz_mk (f, 1, 1); PTR (f)[0] = ff; vf_mpz_mk (r, 1, 0);
  if (ALIAS) rp = op;
  if (ff <= 1) vf_expect_exc = 1;
  ret = mpz_remove (rp, op, f); VF_NO_EXC_EXPECTED ();
  v = a; if (a != 0) for (i = 0; i < VB + 1; i++) if ((unsigned long) ((vs_t) v % (vs_t) ff) == 0) { v = (unsigned long) ((vs_t) v / (vs_t) ff); cnt++; }
  CHECK (ret == cnt, "returns the multiplicity of f");
  CHECK (vf_mpz_wf (rp), "result well formed");
  CHECK (v == 0 ? SIZ (rp) == 0 : (ABSIZ (rp) == 1 && PTR (rp)[0] == v && (SIZ (rp) < 0) == (SGN < 0)), "cofactor with all factors f removed, sign kept");
  if (!ALIAS) CHECK (SIZ (op) == SGN && (SGN == 0 || PTR (op)[0] == a), "operand unchanged");
  mpz_clear (op); mpz_clear (f); mpz_clear (r); CHECK (vf_live == 0, "no block held (all temporaries of mpz_remove cleared)");
VF_MAIN_END
