/* C11: mpq_equal on canonical operands, D-FULL: value equality of canonical fractions is identity of sign, sizes and limbs.
   S1N,S1D / S2N,S2D signed numerator size and denominator size of the two operands; SAME: second operand is the same object. */
#include "vh.h"
#define AB(x) ((x) < 0 ? -(x) : (x))
#define MX(a,b) ((a) > (b) ? (a) : (b))
#define W (MX (MX (AB (S1N), S1D), MX (AB (S2N), S2D)) + 1)
VF_MAIN_BEGIN
  mpq_t a, b; mp_limb_t an[W], ad[W], bn[W], bd[W]; int i, eq, r;
  VF_FIDELITY ();
  vf_mpq_mk (a, MX (1, AB (S1N)), S1N, S1D, S1D); vf_mpq_mk (b, MX (1, AB (S2N)), S2N, S2D, S2D);
  vf_mag_get (an, W, mpq_numref (a)); vf_mag_get (ad, W, mpq_denref (a)); vf_mag_get (bn, W, mpq_numref (b)); vf_mag_get (bd, W, mpq_denref (b));
  eq = S1N == S2N && S1D == S2D; for (i = 0; i < W; i++) eq = eq && an[i] == bn[i] && ad[i] == bd[i];
  r = SAME ? mpq_equal (a, a) : mpq_equal (a, b);
  CHECK ((r != 0) == (SAME ? 1 : eq), "mpq_equal is true exactly for identical canonical fractions");
  CHECK (SIZ (mpq_numref (a)) == S1N && vf_mag_eq (mpq_numref (a), an, W) && vf_mag_eq (mpq_denref (b), bd, W), "operands unchanged");
VF_MAIN_END
