/* C09: the real mpn_sqrtrem / mpz_perfect_square_p / mpn_perfect_square_p on one-limb operands u in [LO, LO + 2^VB):
   s = floor(sqrt(u)), r = u - s^2 (oracle: s*s <= u < (s+1)^2 with s read from the result, r = u - s*s);
   perfect_square_p <=> r == 0.  LO places the window (0, around 2^32, 2^62, top of the limb) so that every normalisation shift class is visited. */
#define VF_REC_ALLOC 1
#include "vh.h"
VF_MAIN_BEGIN
  mp_limb_t u[1], s[1], r[1]; unsigned long d = in64 (), x, sv, rv; mp_size_t rn; mpz_t z; int p1, p2;
  VF_FIDELITY ();
  ASSUME (d < (1UL << VB)); x = LO + d; ASSUME (x != 0); u[0] = x; s[0] = 0; r[0] = 0;
  rn = mpn_sqrtrem (s, r, u, 1); sv = s[0]; rv = rn ? r[0] : 0;
  CHECK (sv < (1UL << 32), "root fits half a limb");
  CHECK (sv * sv <= x && (sv == 0xffffffffUL || (sv + 1) * (sv + 1) > x), "s = floor(sqrt(u))");
  CHECK (rv == x - sv * sv && (rn == 0) == (rv == 0) && rn <= 1, "r = u - s^2 and its size");
  p1 = mpn_perfect_square_p (u, 1); CHECK ((p1 != 0) == (rv == 0), "mpn_perfect_square_p");
  vf_mpz_mk (z, 1, 1); PTR (z)[0] = x; p2 = mpz_perfect_square_p (z); CHECK ((p2 != 0) == (rv == 0), "mpz_perfect_square_p");
VF_MAIN_END
