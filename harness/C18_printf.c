/* C18: gmp_snprintf / gmp_sprintf / gmp_asprintf of a single %Z integer conversion, format FMT concrete per query (flags, width,
   precision, conversion enumerated by the driver; '*' width/precision arguments symbolic within +-WMAX), value symbolic with
   |z| < 2^VB and concrete sign class SGN.  Oracle: a transcription of C11 7.21.6.1 for the d/i/o/x/X conversions applied to the
   equal long value (checked against the C library's own snprintf in every native replay).
   FN 0 gmp_snprintf with buffer size BSIZE (symbolic when BSIZE < 0: every size 0..MAXO+1); 1 gmp_sprintf; 2 gmp_asprintf */
#define VF_REC_ALLOC 1
#define VF_ALLOC_BYTES 1
#include "vh.h"
#ifndef VB
#define VB 10
#endif
#ifndef WMAX
#define WMAX 9
#endif
#ifndef MAXO
#define MAXO 40
#endif
#ifndef EXCL
#define EXCL 1
#endif
#ifndef KMASK
#define KMASK 0
#endif
#ifndef NDIG
#define NDIG 2
#endif
/* mpz_get_str is a contract stub here (its digits are C06's subject): asserts it is asked for a fresh string (NULL) in the base
   the conversion character implies and returns a block of exactly strlen+1 bytes holding '-' (SGN<0) and NDIG symbolic digits
   of that base (first digit non-zero; "0" for SGN==0).  The oracle formats the same digit string. */
static char vf_digits[NDIG + 3]; static int vf_base_seen = 0, vf_getstr_calls = 0;
char *mpz_get_str (char *res, int base, mpz_srcptr x)
{ int n = (SGN < 0) + (SGN == 0 ? 1 : NDIG), i; char *r;
  vf_getstr_calls++; vf_base_seen = base;
  CHECK (res == 0, "doprnt asks mpz_get_str for a fresh string");
  r = (char *) (*__gmp_allocate_func) (n + 1);
  for (i = 0; i <= n; i++) r[i] = vf_digits[i];
  return r; }
static int vf_known = 0;    /* bit k set: the call falls into known finding class K(k+1), see known_findings.txt */
static int ref_fmt (char *out, const char *fmt, const char *ds, int star_w, int star_p)
{ int left = 0, plus = 0, space = 0, alt = 0, zero = 0, width = 0, prec = -1, i = 1, n = 0, nd = 0, base = 10, upper = 0, k, len, pad; char conv, dig[70], pre[3]; int npre = 0; char sign = 0; int neg = ds[0] == '-', zerov, dl, negw = 0, negp = 0, dotonly = 0;
  for (;; i++) { if (fmt[i] == '-') left = 1; else if (fmt[i] == '+') plus = 1; else if (fmt[i] == ' ') space = 1; else if (fmt[i] == '#') alt = 1; else if (fmt[i] == '0') zero = 1; else break; }
  if (fmt[i] == '*') { width = star_w; i++; if (width < 0) { left = 1; width = -width; negw = 1; } } else while (fmt[i] >= '0' && fmt[i] <= '9') width = width * 10 + (fmt[i++] - '0');
  if (fmt[i] == '.') { i++; prec = 0; if (!(fmt[i] == '*' || (fmt[i] >= '0' && fmt[i] <= '9'))) dotonly = 1; if (fmt[i] == '*') { prec = star_p; i++; if (prec < 0) { prec = -1; negp = 1; } } else while (fmt[i] >= '0' && fmt[i] <= '9') prec = prec * 10 + (fmt[i++] - '0'); }
  if (fmt[i] == 'Z') i++;
  conv = fmt[i];
  if (conv == 'o') base = 8; if (conv == 'x') base = 16; if (conv == 'X') { base = 16; upper = 1; }
  if (neg) ds++;
  zerov = SGN == 0; dl = NDIG;
  vf_known = 0;
  if (zero && left) vf_known |= 1;                                  /* K1: '0' with '-' or a negative '*' width */
  if (zero && prec >= 0) vf_known |= 2;                             /* K2: '0' with a precision */
  if (negp && zerov) vf_known |= 4;                                 /* K3: negative '*' precision, value 0 */
  if (plus && space) vf_known |= 8;                                 /* K4: '+' together with ' ' */
  if (alt && base == 8 && !zerov && prec > dl) vf_known |= 16;      /* K5: '#' on o with a precision that already supplies the leading zero */
  if (alt && base == 16 && zerov && prec == 0) vf_known |= 32;      /* K6: '#' on x/X, value 0, precision 0 */
  if (dotonly && zerov) vf_known |= 64;                             /* K7: '.' without digits, value 0 */
  if (conv == 'd' || conv == 'i') { if (neg) sign = '-'; else if (plus) sign = '+'; else if (space) sign = ' '; }
  if (!zerov) for (k = dl - 1; k >= 0; k--) dig[nd++] = ds[k];           /* dig[] least significant first */
  if (nd == 0 && prec != 0) dig[nd++] = '0';
  k = nd; if (prec > k) k = prec;                                  /* digits incl. precision zeros */
  if (alt && base == 8 && !(k > nd) && !(nd > 0 && dig[nd - 1] == '0')) k = nd + 1;     /* '#' on o: force a leading zero */
  if (alt && base == 16 && !zerov) { pre[0] = '0'; pre[1] = upper ? 'X' : 'x'; npre = 2; }
  len = (sign != 0) + npre + k; pad = width > len ? width - len : 0;
  if (!left && !(zero && prec < 0)) while (pad) { out[n++] = ' '; pad--; }
  if (sign) out[n++] = sign; for (i = 0; i < npre; i++) out[n++] = pre[i];
  if (!left && zero && prec < 0) while (pad) { out[n++] = '0'; pad--; }
  for (i = 0; i < k - nd; i++) out[n++] = '0';
  for (i = nd - 1; i >= 0; i--) out[n++] = dig[i];
  while (pad) { out[n++] = ' '; pad--; }
  out[n] = 0; return n; }
#if NSTAR == 0
#define VF_ARGS , z
#elif NSTAR == 1 || NSTAR == 3
#define VF_ARGS , sw, z
#else
#define VF_ARGS , sw, spr, z
#endif
VF_MAIN_BEGIN
  mpz_t z; char buf[MAXO + 8], e[MAXO + 8]; char *ap = 0; int i, en, ret, sw = 0, spr = 0; long v; unsigned long a; size_t bs;
  VF_FIDELITY ();
  /* the layout layer never looks at digit values (only at a leading '-', a leading '0' and '/'), so the digit string is a
     concrete shape parameter; the symbolic inputs of this family are the '*' width/precision arguments and the buffer size */
  { const char *dg = DIGITS; int k = 0; if (SGN < 0) vf_digits[k++] = '-'; for (i = 0; i < NDIG; i++) vf_digits[k++] = dg[i]; vf_digits[k] = 0; }
  vf_mpz_mk (z, 1, SGN); a = 0; v = 0;
#if NSTAR >= 1
  sw = (int) (long) in64 (); ASSUME (sw >= -WMAX && sw <= WMAX);
#endif
#if NSTAR == 2 || NSTAR == 3
  spr = (int) (long) in64 (); ASSUME (spr >= -2 && spr <= WMAX);
#endif
  en = ref_fmt (e, FMT, vf_digits, sw, NSTAR == 3 ? sw : spr);
  CHECK (en <= MAXO, "harness bound: output length");
#if EXCL
  ASSUME (vf_known == 0);       /* known deviations from C (known_findings.txt) are pinned by the kf.* queries instead */
#else
  ASSUME (vf_known == KMASK);
#endif
#ifdef REPLAY
  v = strtol (vf_digits, 0, CONVBASE < 0 ? -CONVBASE : CONVBASE);
  { char lf[32], lo[MAXO + 8]; int j = 0, k2 = 0; const char *f = FMT; for (; f[j]; j++) { if (f[j] == 'Z') lf[k2++] = 'l'; else lf[k2++] = f[j]; } lf[k2] = 0;
    if (NSTAR == 0) snprintf (lo, sizeof lo, lf, v); else if (NSTAR == 1) snprintf (lo, sizeof lo, lf, sw, v); else if (NSTAR == 2) snprintf (lo, sizeof lo, lf, sw, spr, v); else snprintf (lo, sizeof lo, lf, sw, v);
    if (strcmp (lo, e) != 0) { printf ("ORACLE-MISMATCH fmt=%s v=%ld libc=[%s] ref=[%s]\n", lf, v, lo, e); exit (4); } }
#endif
  for (i = 0; i < MAXO + 8; i++) buf[i] = 0x5A;
#if FN == 0
  bs = BSIZE >= 0 ? (size_t) BSIZE : (size_t) in64 (); ASSUME (bs <= MAXO + 2);
  ret = gmp_snprintf (buf, bs, FMT VF_ARGS);
  CHECK (ret == en, "returns the full length the output needs");
  for (i = 0; i < MAXO + 8; i++)
    { if (bs > 0 && (size_t) i < bs - 1 && i < en) CHECK (buf[i] == e[i], "bytes identical to the C formatting of the equal long");
      else if (bs > 0 && i == (int) ((size_t) en < bs - 1 ? (size_t) en : bs - 1)) CHECK (buf[i] == 0, "NUL terminated inside size");
      else if ((size_t) i >= bs) CHECK (buf[i] == 0x5A, "never writes more than size bytes"); }
#elif FN == 1
  ret = gmp_sprintf (buf, FMT VF_ARGS);
  CHECK (ret == en, "returns the length"); for (i = 0; i <= MAXO; i++) if (i <= en) CHECK (buf[i] == e[i], "bytes identical to the C formatting of the equal long");
#else
  ret = gmp_asprintf (&ap, FMT VF_ARGS);
  CHECK (ret == en, "returns the length"); for (i = 0; i <= MAXO; i++) if (i <= en) CHECK (ap[i] == e[i], "bytes identical to the C formatting of the equal long");
  (*__gmp_free_func) (ap, en + 1);          /* recording allocator: the block is exactly length+1 bytes */
#endif
  CHECK (vf_getstr_calls == 1 && vf_base_seen == CONVBASE, "digits requested once, in the base of the conversion");
  mpz_clear (z); CHECK (vf_live == 0, "no block held");
VF_MAIN_END
