/* C02/C05: power-of-two division family, D-FULL (pure shift/mask/two's-complement code).
   FN 0 fdiv_q_2exp 1 cdiv_q_2exp 2 tdiv_q_2exp 3 fdiv_r_2exp 4 cdiv_r_2exp 5 tdiv_r_2exp 6 divisible_2exp_p 7 congruent_2exp_p
   SN signed size of n; SV signed size of the second operand (congruent only); CNT shift count; ALIAS 0 distinct 1 w==n; AW alloc of distinct w */
#define VF_REC_ALLOC 1
#include "vh.h"
#define AB(x) ((x) < 0 ? -(x) : (x))
#define MX(a,b) ((a) > (b) ? (a) : (b))
#ifndef SV
#define SV 0
#endif
#ifndef AW
#define AW 1
#endif
#define W (MX (AB (SN), AB (SV)) + (CNT) / 64 + 3)
static void tc_sar (mp_limb_t *r, const mp_limb_t *a, unsigned long c)      /* arithmetic shift right, concrete count */
{ int i; unsigned long ls = c / 64, bs = c % 64; mp_limb_t ext = (a[W - 1] >> 63) ? ~0UL : 0;
  for (i = 0; i < W; i++) { mp_limb_t lo = i + ls < W ? a[i + ls] : ext, hi = i + ls + 1 < W ? a[i + ls + 1] : ext; r[i] = bs ? (lo >> bs) | (hi << (64 - bs)) : lo; } }
static void tc_low (mp_limb_t *r, const mp_limb_t *a, unsigned long c)      /* a mod 2^c */
{ int i; for (i = 0; i < W; i++) r[i] = (unsigned long) i < c / 64 ? a[i] : (unsigned long) i == c / 64 && c % 64 ? a[i] & ((1UL << (c % 64)) - 1) : 0; }
VF_MAIN_BEGIN
  mpz_t n, v, w; mpz_ptr wp = w; mp_limb_t tn[W], tv[W], t1[W], t2[W], e[W], tw[W], n0[W]; int i, ret;
  VF_FIDELITY ();
  vf_mpz_mk (n, MX (1, AB (SN)), SN); vf_mpz_mk (v, MX (1, AB (SV)), SV);
  if (ALIAS) wp = n; else vf_mpz_mk (w, AW, 0);
  vf_tc_from_mpz (tn, W, n); vf_tc_from_mpz (tv, W, v); vf_mag_get (n0, W, n);
  switch (FN) {
    case 0: mpz_fdiv_q_2exp (wp, n, CNT); tc_sar (e, tn, CNT); break;
    case 1: mpz_cdiv_q_2exp (wp, n, CNT); vf_tc_neg (t1, tn, W); tc_sar (t2, t1, CNT); vf_tc_neg (e, t2, W); break;
    case 2: mpz_tdiv_q_2exp (wp, n, CNT); if (SN >= 0) tc_sar (e, tn, CNT); else { vf_tc_neg (t1, tn, W); tc_sar (t2, t1, CNT); vf_tc_neg (e, t2, W); } break;
    case 3: mpz_fdiv_r_2exp (wp, n, CNT); tc_low (e, tn, CNT); break;
    case 4: mpz_cdiv_r_2exp (wp, n, CNT); vf_tc_neg (t1, tn, W); tc_low (t2, t1, CNT); vf_tc_neg (e, t2, W); break;
    case 5: mpz_tdiv_r_2exp (wp, n, CNT); if (SN >= 0) tc_low (e, tn, CNT); else { vf_tc_neg (t1, tn, W); tc_low (t2, t1, CNT); vf_tc_neg (e, t2, W); } break;
    case 6: ret = mpz_divisible_2exp_p (n, CNT); tc_low (e, tn, CNT); { int z = 1; for (i = 0; i < W; i++) z = z && e[i] == 0; CHECK ((ret != 0) == z, "divisible_2exp_p"); } break;
    case 7: ret = mpz_congruent_2exp_p (n, v, CNT); vf_tc_sub (t1, tn, tv, W); tc_low (e, t1, CNT); { int z = 1; for (i = 0; i < W; i++) z = z && e[i] == 0; CHECK ((ret != 0) == z, "congruent_2exp_p"); } break; }
  if (FN < 6) { CHECK (vf_mpz_wf (wp), "result well formed"); CHECK (AB (SIZ (wp)) <= W - 1, "result size bound");
                vf_tc_from_mpz (tw, W, wp); CHECK (vf_tc_eq (tw, e, W), "quotient/remainder with the documented rounding"); }
  if (wp != n) { CHECK (SIZ (n) == SN && vf_mag_eq (n, n0, W), "operand unchanged"); }
VF_MAIN_END
