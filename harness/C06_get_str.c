/* C06: mpz_get_str (and mpn_get_str under it).  BASE concrete (2..62, -2..-36), ZS signed size; power-of-two bases: all limb
   values; other bases: one limb, value < 2^VB (digit generation there is multiply/divide by constants, DESIGN R4).
   FN 0: caller's buffer (sentinel-filled, documented size sizeinbase+2); FN 1: NULL -> block from the allocator, must be exactly strlen+1.
   Oracle: '-' for negatives, then exactly the base-|BASE| digits of |x| most significant first with the documented alphabet
   (lower case for 2..36, upper for -2..-36, upper then lower for 37..62), no leading zero (a single "0" for zero), NUL. */
#define VF_REC_ALLOC 1
#define VF_ALLOC_BYTES 1
#include "vh.h"
#define AB(x) ((x) < 0 ? -(x) : (x))
#define B AB (BASE)
#define POW2 ((B & (B - 1)) == 0)
#define LOG2B (B == 2 ? 1 : B == 4 ? 2 : B == 8 ? 3 : B == 16 ? 4 : B == 32 ? 5 : 6)
#ifndef VB
#define VB 12
#endif
#define MAXD (POW2 ? (64 * AB (ZS) + LOG2B - 1) / LOG2B + 1 : VB + 2)
#define BUFN (MAXD + 8)
static char alpha (int d) { const char *lo = "0123456789abcdefghijklmnopqrstuvwxyz", *up = "0123456789ABCDEFGHIJKLMNOPQRSTUVWXYZabcdefghijklmnopqrstuvwxyz";
  return BASE < 0 ? up[d] : BASE <= 36 ? lo[d] : up[d]; }
VF_MAIN_BEGIN
  mpz_t x; mp_limb_t m[AB (ZS) + 2]; char buf[BUFN], e[BUFN]; char *r; int i, n = 0, nd = 0; unsigned long bl = 0;
  VF_FIDELITY ();
  vf_mpz_mk (x, AB (ZS) ? AB (ZS) : 1, ZS);
  for (i = 0; i < AB (ZS) + 2; i++) m[i] = i < AB (ZS) ? PTR (x)[i] : 0;
  if (!POW2 && ZS != 0) ASSUME (m[0] < (1UL << VB));
  for (i = 0; i < BUFN; i++) { buf[i] = 0x5A; e[i] = 0; }
  /* reference string */
  if (ZS < 0) e[n++] = '-';
  if (ZS == 0) { e[n++] = '0'; }
  else if (POW2)
    { bl = 64UL * (AB (ZS) - 1) + vf_bsr (m[AB (ZS) - 1]) + 1; nd = (int) ((bl + LOG2B - 1) / LOG2B);
      for (i = 0; i < MAXD; i++) if (i < nd) { unsigned long pos = (unsigned long) (nd - 1 - i) * LOG2B, li = pos / 64, bi = pos % 64;
          unsigned long v = bi ? (m[li] >> bi) | (m[li + 1] << (64 - bi)) : m[li]; e[n++] = alpha ((int) (v & (B - 1))); } }
  else
    { unsigned long v = m[0], t = v; char tmp[VB + 2]; while (t) { t /= B; nd++; if (nd > VB + 1) break; }
      t = v; for (i = 0; i < VB + 1; i++) if (i < nd) { tmp[i] = alpha ((int) (t % B)); t /= B; }
      for (i = 0; i < VB + 1; i++) if (i < nd) e[n++] = tmp[nd - 1 - i]; }
  e[n] = 0;
#if FN == 0
  r = mpz_get_str (buf, BASE, x); CHECK (r == buf, "returns the caller's buffer");
#else
  r = mpz_get_str (0, BASE, x); CHECK (r != 0, "returns an allocated string");
#endif
  for (i = 0; i < BUFN; i++) if (i <= n) CHECK (r[i] == e[i], "exact digits, alphabet, sign, no leading zeros, NUL");
#if FN == 0
  for (i = 0; i < BUFN; i++) if (i > n + 1 + (ZS == 0 || POW2 ? 0 : 1)) CHECK (buf[i] == 0x5A, "nothing written beyond sizeinbase+2 bytes");
#else
  (*__gmp_free_func) (r, n + 1);             /* the recording allocator asserts the block is exactly strlen+1 bytes */
#endif
  CHECK (SIZ (x) == ZS, "operand size unchanged"); for (i = 0; i < AB (ZS); i++) CHECK (PTR (x)[i] == m[i], "operand unchanged");
  mpz_clear (x); CHECK (vf_live == 0, "no block held");
VF_MAIN_END
