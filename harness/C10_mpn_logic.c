/* C10: mpn logical functions. FN 0 and_n 1 andn_n 2 ior_n 3 iorn_n 4 nand_n 5 nior_n 6 xor_n 7 xnor_n 8 com_n
   9 popcount 10 hamdist 11 scan0 12 scan1 (START concrete, a hit is guaranteed by assumption as the manual requires).
   ALIAS 0 separate 1 rp==up 2 rp==vp
   PAT t (popcount/hamdist beyond 2-3 limbs, where the all-values equivalence of the bit trick and an adder is SAT-hard): domain D-PAT,
   every limb drawn from the 2^t-entry corner table (0, B-1, 1, B/2, ..., 0x55.., 0xAA..) by a symbolic selector */
#include "vh.h"
#ifndef START
#define START 0
#endif
VF_MAIN_BEGIN
  mp_limb_t u[N], v[N], r[N], u0[N], v0[N]; int i; mp_limb_t *rp = ALIAS == 1 ? u : ALIAS == 2 ? v : r;
  VF_FIDELITY ();
#ifdef PAT
  vf_fill_pat (u, N, PAT); vf_fill_pat (v, N, PAT);      /* D-PAT: every limb is CORNER[selector], selector symbolic with PAT bits */
#else
  vf_fill (u, N); vf_fill (v, N);
#endif
  for (i = 0; i < N; i++) { u0[i] = u[i]; v0[i] = v[i]; }
#if FN <= 8
  switch (FN) {
    case 0: mpn_and_n (rp, u, v, N); break; case 1: mpn_andn_n (rp, u, v, N); break;
    case 2: mpn_ior_n (rp, u, v, N); break; case 3: mpn_iorn_n (rp, u, v, N); break;
    case 4: mpn_nand_n (rp, u, v, N); break; case 5: mpn_nior_n (rp, u, v, N); break;
    case 6: mpn_xor_n (rp, u, v, N); break; case 7: mpn_xnor_n (rp, u, v, N); break;
    case 8: mpn_com_n (rp, u, N); break; }
  for (i = 0; i < N; i++)
    { mp_limb_t a = u0[i], b = v0[i], e;
      e = FN == 0 ? a & b : FN == 1 ? a & ~b : FN == 2 ? a | b : FN == 3 ? a | ~b : FN == 4 ? ~(a & b) : FN == 5 ? ~(a | b) : FN == 6 ? a ^ b : FN == 7 ? ~(a ^ b) : ~a;
      CHECK (rp[i] == e, "logic limb"); }
#elif FN == 9
  { unsigned long want = 0; for (i = 0; i < N; i++) want += __builtin_popcountl (u[i]); CHECK (mpn_popcount (u, N) == want, "popcount"); }
#elif FN == 10
  { unsigned long want = 0; for (i = 0; i < N; i++) want += __builtin_popcountl (u[i] ^ v[i]); CHECK (mpn_hamdist (u, v, N) == want, "hamdist"); }
#else
  { unsigned long want = ~0UL, got; int found = 0;
    for (i = START / 64; i < N; i++)
      { mp_limb_t x = FN == 12 ? u[i] : ~u[i]; if (i == START / 64) x &= ~0UL << (START % 64);
        if (x != 0 && !found) { want = (unsigned long) i * 64 + __builtin_ctzl (x); found = 1; } }
    ASSUME (found);
    got = FN == 12 ? mpn_scan1 (u, START) : mpn_scan0 (u, START);
    CHECK (got == want, "scan"); }
#endif
  if (ALIAS != 1) for (i = 0; i < N; i++) CHECK (u[i] == u0[i], "u unchanged");
  if (ALIAS != 2) for (i = 0; i < N; i++) CHECK (v[i] == v0[i], "v unchanged");
VF_MAIN_END
