/* C10: FN 0 setbit 1 clrbit 2 combit 3 tstbit; SU signed size; BIT concrete bit index (a symbolic index makes
   every limb access a symbolic-offset pointer; limb contents stay symbolic); AU = alloc of u */
#include "vh.h"
#define AB(x) ((x) < 0 ? -(x) : (x))
#define MX(a,b) ((a) > (b) ? (a) : (b))
#define W (MX (AB (SU), (BIT) / 64 + 1) + 2)
VF_MAIN_BEGIN
  mpz_t u; mp_limb_t tu[W], tw[W]; int i, r;
  VF_FIDELITY ();
  vf_mpz_mk (u, MX (MX (1, AB (SU)), AU), SU);
  vf_tc_from_mpz (tu, W, u);
#if FN == 0
  mpz_setbit (u, BIT); tu[(BIT) / 64] |= 1UL << ((BIT) % 64);
#elif FN == 1
  mpz_clrbit (u, BIT); tu[(BIT) / 64] &= ~(1UL << ((BIT) % 64));
#elif FN == 2
  mpz_combit (u, BIT); tu[(BIT) / 64] ^= 1UL << ((BIT) % 64);
#else
  r = mpz_tstbit (u, BIT); CHECK (r == (int) ((tu[(BIT) / 64] >> ((BIT) % 64)) & 1), "tstbit");
  CHECK (SIZ (u) == SU, "tstbit leaves operand");
#endif
  CHECK (vf_mpz_wf (u), "result well formed");
  CHECK (AB (SIZ (u)) <= W - 1, "result size bound");
  vf_tc_from_mpz (tw, W, u);
  CHECK (vf_tc_eq (tw, tu, W), "two's complement result");
VF_MAIN_END
