/* C03: mpn_add_n / mpn_sub_n, all limb values, concrete N, alias pattern ALIAS:
   0 = rp separate, 1 = rp==up, 2 = rp==vp, 3 = rp==up==vp */
#include "vh.h"
#ifndef N
#define N 3
#endif
#ifndef ALIAS
#define ALIAS 0
#endif
#ifndef OP
#define OP 0  /* 0 add, 1 sub */
#endif
VF_MAIN_BEGIN
  mp_limb_t u[N], v[N], r[N], u0[N], v0[N], cy, c = 0; int i;
  VF_FIDELITY ();
  vf_fill (u, N); vf_fill (v, N);
  if (ALIAS == 3) for (i = 0; i < N; i++) v[i] = u[i];
  for (i = 0; i < N; i++) { u0[i] = u[i]; v0[i] = v[i]; }
  {
    mp_limb_t *rp = ALIAS == 0 ? r : (ALIAS == 2 ? v : u);
    mp_limb_t *vp = ALIAS == 3 ? u : v;
    cy = OP == 0 ? mpn_add_n (rp, u, vp, N) : mpn_sub_n (rp, u, vp, N);
    for (i = 0; i < N; i++)
      { vf_u128 s = OP == 0 ? (vf_u128) u0[i] + v0[i] + c : (vf_u128) u0[i] - v0[i] - c;
        CHECK (rp[i] == (mp_limb_t) s, "result limb");
        c = (mp_limb_t) (s >> 64) & 1; }
    CHECK (cy == c, "carry/borrow out");
    if (ALIAS == 0) for (i = 0; i < N; i++) { CHECK (u[i] == u0[i], "u unchanged"); CHECK (v[i] == v0[i], "v unchanged"); }
  }
VF_MAIN_END
