/* C03: mpn_add / mpn_sub (UN >= VN >= 1), all limb values. ALIAS 0 separate, 1 rp==up, 2 rp==vp (VN==UN only) */
#include "vh.h"
VF_MAIN_BEGIN
  mp_limb_t u[UN], v[UN], r[UN], u0[UN], v0[UN], cy, c = 0; int i;
  VF_FIDELITY ();
  vf_fill (u, UN); vf_fill (v, VN);
  for (i = VN; i < UN; i++) v[i] = 0;
  for (i = 0; i < UN; i++) { u0[i] = u[i]; v0[i] = v[i]; }
  { mp_limb_t *rp = ALIAS == 0 ? r : (ALIAS == 2 ? v : u);
    cy = OP == 0 ? mpn_add (rp, u, UN, v, VN) : mpn_sub (rp, u, UN, v, VN);
    for (i = 0; i < UN; i++)
      { vf_u128 s = OP == 0 ? (vf_u128) u0[i] + v0[i] + c : (vf_u128) u0[i] - v0[i] - c;
        CHECK (rp[i] == (mp_limb_t) s, "result limb"); c = (mp_limb_t) (s >> 64) & 1; }
    CHECK (cy == c, "carry/borrow out");
    if (ALIAS == 0) for (i = 0; i < UN; i++) { CHECK (u[i] == u0[i], "u unchanged"); CHECK (v[i] == v0[i], "v unchanged"); }
  }
VF_MAIN_END
