/* C08: the real mpz_powm / mpz_powm_ui stack (mpz layer, mpn_powm with its window table and REDC, mpn_powlo, mpn_binvert,
   mpn_mullow_n, mpn_mul, mpn_tdiv_qr, ...) on a small-value domain, D-SMALL.
   FN 0 mpz_powm, 1 mpz_powm_ui
   MV  concrete |modulus| (one limb, small), MS sign of the modulus
   SB  sign of the base (-1, 0, 1; 2 = symbolic sign): |b| symbolic in [1, 2^BB) shifted left by BSH bits (BSH moves the base above the modulus /
       above one limb's half so that the bn >= n reductions are taken)
   ES  sign of the exponent (0: e = 0, 1: e symbolic in [1, 2^EB), -1: negative, |e| symbolic in [1, 2^EB)), ESH: |e| += ESH
   ALIAS 0 none, 1 r==b, 2 r==e, 3 r==m
   mpz_invert (negative exponents) is a specification stub deciding invertibility by search over [0, MV).
   Oracle: square-and-multiply in 32-bit arithmetic modulo MV. */
#define VF_OWN_ERRNO 1
#define VF_REC_ALLOC 1
#ifndef VF_MAXL
#define VF_MAXL 24
#endif
#include "vh.h"
#ifndef BSH
#define BSH 0
#endif
#ifndef ESH
#define ESH 0
#endif
#ifndef MS
#define MS 1
#endif
static unsigned long Bv, Ev;
static unsigned mulmod (unsigned a, unsigned b) { return (unsigned) (((unsigned long) a * b) % (unsigned long) MV); }
static unsigned ref_pow (unsigned b, unsigned long e)
{ unsigned r = 1 % MV; int i; for (i = 63; i >= 0; i--) { if ((e >> i) == 0) continue; r = mulmod (r, r); if ((e >> i) & 1) r = mulmod (r, b); } return r; }
/* x mod MV for a one- or two-limb magnitude, as a non-negative residue of sign * magnitude */
static unsigned ref_res (unsigned long lo, int neg)
{ unsigned r = (unsigned) (lo % (unsigned long) MV); if (neg && r) r = MV - r; return r; }
static int inv_calls = 0;
int mpz_invert (mpz_ptr inv, mpz_srcptr x, mpz_srcptr n)
{ unsigned a, k, found = 0, val = 0; inv_calls++;
  CHECK (ABSIZ (n) == 1 && PTR (n)[0] == MV, "mpz_invert receives the modulus");
  CHECK (ABSIZ (x) <= 1, "harness bound: base of one limb under a negative exponent");
  CHECK (inv != x && inv != n, "mpz_invert destination is a temporary");
  a = ref_res (ABSIZ (x) ? PTR (x)[0] : 0, SIZ (x) < 0);
  for (k = 0; k < MV; k++) if (!found && mulmod (a, k) == 1 % MV) { found = 1; val = k; }
  if (MV == 1) { found = 1; val = 0; }
  if (!found) return 0;
  CHECK (ALLOC (inv) >= 1, "inverse fits its destination");
  if (val == 0) SIZ (inv) = 0; else { PTR (inv)[0] = val; SIZ (inv) = 1; }
  return 1; }
VF_MAIN_BEGIN
  mpz_t r, b, e, m; mpz_ptr rp = r; long sb = SB; unsigned bres, want; int invertible = 0; unsigned k;
  VF_FIDELITY ();
  Bv = 0; Ev = 0;
  if (SB != 0) { Bv = in64 (); ASSUME (Bv >= 1 && Bv < (1UL << BB)); Bv <<= BSH; }
#ifdef EV
  Ev = EV;       /* concrete exponent magnitude: every loop of the window exponentiation has a concrete trip count */
#else
  if (ES != 0) { Ev = in64 (); ASSUME (Ev >= 1 && Ev < (1UL << EB)); Ev += ESH; }
#endif
#if SB == 2
  { unsigned long sg = in64 (); ASSUME (sg <= 1); sb = sg ? -1 : 1; }       /* symbolic sign of the base */
#endif
  vf_mpz_mk (b, 1, SB != 0); if (SB) { PTR (b)[0] = Bv; SIZ (b) = sb; }
  vf_mpz_mk (e, 1, ES); if (ES) PTR (e)[0] = Ev;
  vf_mpz_mk (m, 1, MS); PTR (m)[0] = MV;
  vf_mpz_mk (r, 1, 0);
  if (ALIAS == 1) rp = b; if (ALIAS == 2) rp = e; if (ALIAS == 3) rp = m;
  bres = ref_res (Bv, sb < 0);
  if (ES < 0)
    { unsigned val = 0;
      for (k = 0; k < MV; k++) if (!invertible && mulmod (bres, k) == 1 % MV) { invertible = 1; val = k; }
      if (MV == 1) { invertible = 1; val = 0; }
      if (!invertible) vf_expect_exc = 1;
      bres = val; }
  want = ref_pow (bres, Ev);
#if FN == 0
  mpz_powm (rp, b, e, m);
#else
  ASSUME (ES >= 0);
  mpz_powm_ui (rp, b, Ev, m);
#endif
  VF_NO_EXC_EXPECTED ();
  CHECK (vf_mpz_wf (rp), "result well formed");
  CHECK (SIZ (rp) >= 0, "result is non-negative");
  CHECK (SIZ (rp) <= 1, "result below the modulus (size)");
  CHECK ((SIZ (rp) ? PTR (rp)[0] : 0) < MV, "result in [0, |mod|)");
  CHECK ((SIZ (rp) ? PTR (rp)[0] : 0) == want, "result equals base^exp mod |mod|");
  if (rp != b) CHECK (SIZ (b) == sb && (SB == 0 || PTR (b)[0] == Bv), "base unchanged");
  if (rp != e) CHECK (SIZ (e) == ES && (ES == 0 || PTR (e)[0] == Ev), "exponent unchanged");
  if (rp != m) CHECK (SIZ (m) == MS && PTR (m)[0] == MV, "modulus unchanged");
  mpz_clear (b); mpz_clear (r); mpz_clear (e); mpz_clear (m); CHECK (vf_live == 0, "no block held");
VF_MAIN_END
