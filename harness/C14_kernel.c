/* C14: translation validation of one x86-64 assembly kernel (translated to C by lib/asm2c.py, included as VK_SRC) against the
   portable C implementation of the same routine (the real mpn/generic unit, linked; for mpn_karasub/karaadd the static C routine
   of mpn/generic/mul_n.c, included), for a concrete operand length N and overlap layout OVL and all limb contents.
   CLS 1 aors_n   c = f (rp, up, vp, n)                     twin mpn_add_n / mpn_sub_n  (SUB 0/1)   OVL 0 separate, 1 rp==up, 2 rp==vp
   CLS 2 kara     f (rp, tp, n)   n >= 8                    twin mpn_karasub / mpn_karaadd (SUB 1/0)
   CLS 3 copy     f (rp, up, n)                             twin mpn_copyi / mpn_copyd / mpn_com_n (SUB 0/1/2)  OVL 0 separate, 1 rp==up
   CLS 4 logic    f (rp, up, vp, n)                         twin mpn_<op>_n, SUB 0..7 = and andn nand ior iorn nior xor xnor
   CLS 5 sumdiff  c = f (rp1, rp2, up, vp, n)               twin mpn_sumdiff_n / mpn_nsumdiff_n (SUB 0/1)
   CLS 6 shift    c = f (rp, up, n, cnt)                    twin mpn_lshift / mpn_rshift (SUB 0/1), cnt symbolic 1..63
   CLS 7 shift1   c = f (rp, up, n)                         twin mpn_lshift / mpn_rshift with count 1 (SUB 0/1: what gmp-impl.h defines mpn_lshift1 / mpn_rshift1 as
                                                            when no native kernel exists)   OVL 0 separate, 1 rp==up
   CLS 8 aors3    c = f (rp, xp, yp, zp, n)                 twin mpn_addadd_n / mpn_addsub_n / mpn_subadd_n (SUB 0/1/2)   OVL 0 separate, 1 rp==xp, 2 rp==yp, 3 rp==zp
   In the native replay the *real* kernel (assembled by yasm from the same file, symbols renamed to vkreal) runs instead of the
   translation. */
#include "vh.h"
#include <stdint.h>
#define VK_WORDS 320
#define VK_BASE 0x100000UL
#define VK_STACK_TOP (VK_BASE + 8UL * (VK_WORDS - 8))
static uint64_t vm[VK_WORDS], vm0[VK_WORDS], vx[VK_WORDS];
static uint64_t *vk_at (uint64_t a)
{ CHECK ((a & 7) == 0 && a >= VK_BASE && a < VK_BASE + 8UL * VK_WORDS, "kernel memory access aligned and inside the modelled memory"); return &vm[(a - VK_BASE) >> 3]; }
static uint64_t vk_junk (int k) { return in64 (); }
#define VK_J4 { vk_junk (16), vk_junk (17), vk_junk (18), vk_junk (19) }
#define VK_VR_INIT VK_J4, VK_J4, VK_J4, VK_J4, VK_J4, VK_J4, VK_J4, VK_J4, VK_J4, VK_J4, VK_J4, VK_J4, VK_J4, VK_J4, VK_J4, VK_J4     /* vector registers start with arbitrary contents */
#define VK_RET_CHECK() CHECK (rsp == VK_STACK_TOP && rbx == s_rbx && rbp == s_rbp && r12 == s_r12 && r13 == s_r13 && r14 == s_r14 && r15 == s_r15, "callee-saved registers and the stack pointer are restored at ret")
#define VK_FELL_OFF() CHECK (0, "control falls off the end of the kernel")
#ifdef VK_UF
#define VK_MUL_LO(a, b) vf_uf_lo (a, b)
#define VK_MUL_HI(a, b) vf_uf_hi (a, b)
#else
#define VK_MUL_LO(a, b) ((uint64_t) ((a) * (b)))
#define VK_MUL_HI(a, b) ((uint64_t) (((unsigned __int128) (a) * (b)) >> 64))
#endif
#ifndef REPLAY
#include VK_SRC
#define KADDR(off) (VK_BASE + 8UL * (off))
#define KCALL(a, b, c, d, e) vk_kernel (a, b, c, d, e, 0)
#else
extern uint64_t vkreal (uint64_t, uint64_t, uint64_t, uint64_t, uint64_t);
#define KADDR(off) ((uint64_t) &vm[off])
#define KCALL(a, b, c, d, e) vkreal (a, b, c, d, e)
#endif
#if CLS == 2
#define mpn_mul_n vk_unused_mul_n
#define mpn_sqr vk_unused_sqr
#define mpn_kara_mul_n vk_unused_kara_mul_n
#define mpn_kara_sqr_n vk_unused_kara_sqr_n
#include "mpn/generic/mul_n.c"
#endif
#ifndef ALN
#define ALN 0
#endif
#define P0 (8 + ALN)     /* ALN 0..3: destination at 0, 8, 16, 24 mod 32 bytes (alignment prologues of the vector kernels) */
VF_MAIN_BEGIN
  long i; uint64_t kret = 0, tret = 0; int o_r, o_r2 = -1, o_u, o_v, rlen, r2len = 0;
  VF_FIDELITY ();
  for (i = 0; i < VK_WORDS; i++) { vm[i] = (i < VK_WORDS - 72) ? in64 () : 0; vm0[i] = vm[i]; vx[i] = vm[i]; }
#if CLS == 1
  o_r = P0; o_u = OVL == 1 ? o_r : P0 + N + 3; o_v = OVL == 2 ? o_r : P0 + 2 * N + 6; rlen = N;
  kret = KCALL (KADDR (o_r), KADDR (o_u), KADDR (o_v), N, 0);
  tret = SUB ? mpn_sub_n (vx + o_r, vx + o_u, vx + o_v, N) : mpn_add_n (vx + o_r, vx + o_u, vx + o_v, N);
  CHECK (kret == tret, "kernel returns the same carry as the portable C routine");
#elif CLS == 2
  o_r = P0; o_u = P0 + 2 * N + 6; rlen = 2 * N; o_r2 = o_u; r2len = 0;
  KCALL (KADDR (o_r), KADDR (o_u), N, 0, 0);
  if (SUB) mpn_karasub (vx + o_r, vx + o_u, N); else mpn_karaadd (vx + o_r, vx + o_u, N);
#elif CLS == 3
  o_r = P0; o_u = OVL == 1 ? o_r : P0 + N + 3; rlen = N;
  KCALL (KADDR (o_r), KADDR (o_u), N, 0, 0);
  if (SUB == 0) mpn_copyi (vx + o_r, vx + o_u, N); else if (SUB == 1) mpn_copyd (vx + o_r, vx + o_u, N); else mpn_com_n (vx + o_r, vx + o_u, N);
#elif CLS == 4
  o_r = P0; o_u = OVL == 1 ? o_r : P0 + N + 3; o_v = OVL == 2 ? o_r : P0 + 2 * N + 6; rlen = N;
  KCALL (KADDR (o_r), KADDR (o_u), KADDR (o_v), N, 0);
  switch (SUB) { case 0: mpn_and_n (vx + o_r, vx + o_u, vx + o_v, N); break; case 1: mpn_andn_n (vx + o_r, vx + o_u, vx + o_v, N); break;
    case 2: mpn_nand_n (vx + o_r, vx + o_u, vx + o_v, N); break; case 3: mpn_ior_n (vx + o_r, vx + o_u, vx + o_v, N); break;
    case 4: mpn_iorn_n (vx + o_r, vx + o_u, vx + o_v, N); break; case 5: mpn_nior_n (vx + o_r, vx + o_u, vx + o_v, N); break;
    case 6: mpn_xor_n (vx + o_r, vx + o_u, vx + o_v, N); break; default: mpn_xnor_n (vx + o_r, vx + o_u, vx + o_v, N); break; }
#elif CLS == 5
  o_r = P0; o_r2 = P0 + N + 3; o_u = OVL == 1 ? o_r : P0 + 2 * N + 6; o_v = OVL == 1 ? o_r2 : P0 + 3 * N + 9; rlen = N; r2len = N;
  kret = KCALL (KADDR (o_r), KADDR (o_r2), KADDR (o_u), KADDR (o_v), N);
  tret = SUB ? mpn_nsumdiff_n (vx + o_r, vx + o_r2, vx + o_u, vx + o_v, N) : mpn_sumdiff_n (vx + o_r, vx + o_r2, vx + o_u, vx + o_v, N);
  CHECK (kret == tret, "kernel returns the same carries as the portable C routine");
#elif CLS == 6
  { unsigned long cnt = in64 (); ASSUME (cnt >= 1 && cnt <= 63);
    o_r = P0 + (OVL == 1 ? (SUB ? 0 : 1) : 0); o_u = OVL == 0 ? P0 + N + 4 : P0 + (SUB ? 1 : 0); if (OVL == 2) o_u = o_r; rlen = N;
    kret = KCALL (KADDR (o_r), KADDR (o_u), N, cnt, 0);
    tret = SUB ? mpn_rshift (vx + o_r, vx + o_u, N, cnt) : mpn_lshift (vx + o_r, vx + o_u, N, cnt);
    CHECK (kret == tret, "kernel returns the same out-shifted bits as the portable C routine"); }
#elif CLS == 7
  o_r = P0; o_u = OVL == 1 ? o_r : P0 + N + 3; rlen = N;
  kret = KCALL (KADDR (o_r), KADDR (o_u), N, 0, 0);
  tret = SUB ? mpn_rshift (vx + o_r, vx + o_u, N, 1) : mpn_lshift (vx + o_r, vx + o_u, N, 1);
  CHECK (kret == tret, "kernel returns the same out-shifted bit as the portable C routine");
#elif CLS == 8
  { int o_w; o_r = P0; o_u = OVL == 1 ? o_r : P0 + N + 3; o_v = OVL == 2 ? o_r : P0 + 2 * N + 6; o_w = OVL == 3 ? o_r : P0 + 3 * N + 9; rlen = N;
    kret = KCALL (KADDR (o_r), KADDR (o_u), KADDR (o_v), KADDR (o_w), N);
    if (SUB == 0) { tret = mpn_addadd_n (vx + o_r, vx + o_u, vx + o_v, vx + o_w, N); CHECK (kret == tret, "kernel returns the same carry as the portable C routine"); }
    else if (SUB == 1) { int t = mpn_addsub_n (vx + o_r, vx + o_u, vx + o_v, vx + o_w, N); CHECK ((int) kret == t, "kernel returns the same carry/borrow as the portable C routine"); }
    else { tret = mpn_subadd_n (vx + o_r, vx + o_u, vx + o_v, vx + o_w, N); CHECK (kret == tret, "kernel returns the same borrow as the portable C routine"); } }
#endif
  for (i = 0; i < VK_WORDS - 72; i++)
    { int in_r = (i >= o_r && i < o_r + rlen) || (o_r2 >= 0 && i >= o_r2 && i < o_r2 + r2len);
#if CLS == 2
      in_r = in_r || (i >= o_u && i < o_u + 2 * N);      /* tp is scratch for both routines: its final content is not part of the contract */
      if (i >= o_u && i < o_u + 2 * N) continue;
#endif
      if (in_r) CHECK (vm[i] == vx[i], "kernel result equals the portable C routine's result, limb for limb");
      else CHECK (vm[i] == vm0[i], "kernel writes nothing outside its destination"); }
VF_MAIN_END
