/* Specification stubs for mpz callees on a small-value domain (|v| < VS_LIM, one limb): compositional checking of a layer
   whose callees are verified elsewhere (C01-C03).  Each stub reads all its sources before writing its destination and asserts
   the domain bound, so a value that leaves the domain is reported as a harness bound, never silently wrapped. */
#ifndef VS_SMALL_H
#define VS_SMALL_H
#ifndef VS_BITS
#define VS_BITS 44
#endif
#ifndef VS_LIM
#define VS_LIM (1UL << (VS_BITS - 2))
#endif
static long vs_val (mpz_srcptr z)
{ unsigned long x = ABSIZ (z) ? PTR (z)[0] : 0; CHECK (ABSIZ (z) <= 1 && x < VS_LIM, "spec stub: operand inside the small-value domain"); return SIZ (z) < 0 ? - (long) x : (long) x; }
static void vs_put (mpz_ptr w, long v)
{ if (v == 0) SIZ (w) = 0; else { MPZ_REALLOC (w, 1); PTR (w)[0] = v < 0 ? - (unsigned long) v : (unsigned long) v; SIZ (w) = v < 0 ? -1 : 1; } }
#ifndef VS_BITS
#define VS_BITS 44
#endif
#ifdef VF_CBMC
typedef signed __CPROVER_bitvector[VS_BITS] vs_t;       /* narrow arithmetic keeps the divider/multiplier circuits small */
#else
typedef long vs_t;
#endif
#ifdef VS_MUL
void mpz_mul (mpz_ptr w, mpz_srcptr u, mpz_srcptr v) { long x = vs_val (u), y = vs_val (v); vs_put (w, (long) ((vs_t) x * (vs_t) y)); }
#endif
#ifdef VS_TDIV
void mpz_tdiv_qr (mpz_ptr q, mpz_ptr r, mpz_srcptr n, mpz_srcptr d)
{ long x = vs_val (n), y = vs_val (d); CHECK (y != 0, "division by zero reaches mpz_tdiv_qr"); CHECK (q != r, "quotient and remainder distinct"); vs_put (q, (long) ((vs_t) x / (vs_t) y)); vs_put (r, (long) ((vs_t) x % (vs_t) y)); }
#endif
#endif
