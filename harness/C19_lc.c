/* C19: the linear congruential generator, real randget_lc + lc (randlc2x.c is #included so its statics can be named), D-UF.
   State built directly: modulus 2^M2EXP (even), seed (full width, symbolic), multiplier a (AN limbs, symbolic), addend c (symbolic).
   One request of NBITS bits into a buffer holding arbitrary stale limbs.  Reference: X <- a*X + c mod 2^m per chunk (limb products
   are the same uninterpreted functions the translated mulq uses), output = concatenation of the low m/2 bits of each X >> m/2,
   i.e. the weak low half of every X never reaches the caller; bits above NBITS in the top limb are zero; limbs beyond
   BITS_TO_LIMBS(NBITS) untouched; the state afterwards is the last X.  FN 1: gmp_randinit_set copy gives the same output. */
#define VF_REC_ALLOC 1
#include "vh.h"
#include "vo_mul.h"
#include "randlc2x.c"
#define SEEDN ((M2EXP + 63) / 64)
#define CB (M2EXP / 2)
#define NL ((NBITS + 63) / 64)
#define W (NL + SEEDN + 3)
static void put_bits (mp_limb_t *r, unsigned long pos, const mp_limb_t *src, unsigned long n)   /* r[pos..pos+n) = src[0..n) (bitwise, concrete pos/n) */
{ unsigned long i; for (i = 0; i < n; i++) { unsigned long b = (src[i / 64] >> (i % 64)) & 1, p = pos + i; r[p / 64] = (r[p / 64] & ~(1UL << (p % 64))) | (b << (p % 64)); } }
static void step (mp_limb_t *x, const mp_limb_t *a, mp_limb_t c)
{ mp_limb_t t[2 * SEEDN + 2]; int i; mp_limb_t cy;
  vo_mul (t, x, SEEDN, a, AN);
  cy = c; for (i = 0; i < SEEDN; i++) { mp_limb_t s = t[i] + cy; cy = s < cy; t[i] = s; }
  if (M2EXP % 64) t[SEEDN - 1] &= (1UL << (M2EXP % 64)) - 1;
  for (i = 0; i < SEEDN; i++) x[i] = t[i]; }
VF_MAIN_BEGIN
  gmp_randstate_t st, st2; gmp_rand_lc_struct *p; mp_limb_t x[SEEDN + 1], a[SEEDN + 1], c, buf[W], buf2[W], stale[W], e[W], hi[SEEDN + 2]; int i; unsigned long pos;
  VF_FIDELITY ();
  p = (gmp_rand_lc_struct *) (*__gmp_allocate_func) (sizeof (gmp_rand_lc_struct));
  RNG_STATE (st) = (void *) p; RNG_FNPTR (st) = (void *) &Linear_Congruential_Generator;
  vf_mpz_mk (p->_mp_seed, SEEDN + 1, 0); vf_mpz_mk (p->_mp_a, SEEDN, 0);
  for (i = 0; i < SEEDN; i++) x[i] = PTR (p->_mp_seed)[i]; x[SEEDN] = 0;
  if (M2EXP % 64) { x[SEEDN - 1] &= (1UL << (M2EXP % 64)) - 1; PTR (p->_mp_seed)[SEEDN - 1] = x[SEEDN - 1]; }
  SIZ (p->_mp_seed) = SEEDN;
  for (i = 0; i < SEEDN + 1; i++) a[i] = i < AN ? PTR (p->_mp_a)[i] : 0;
  if (AN > 1) ASSUME (a[AN - 1] != 0);
  SIZ (p->_mp_a) = AN; c = in64 (); p->_cn = 1; p->_cp[0] = c; p->_mp_m2exp = M2EXP;
  for (i = 0; i < W; i++) { stale[i] = in64 (); buf[i] = stale[i]; buf2[i] = stale[i]; e[i] = stale[i]; }
#if FN == 1
  gmp_randinit_set (st2, st);
#endif
  randget_lc (st, buf, NBITS);
  for (i = 0; i < NL; i++) e[i] = 0;
  for (pos = 0; pos < NBITS; pos += CB)
    { unsigned long n = NBITS - pos < CB ? NBITS - pos : CB;
      step (x, a, c); vf_mag_shr (hi, x, SEEDN + 1, CB); put_bits (e, pos, hi, n); }
  for (i = 0; i < W; i++) CHECK (buf[i] == e[i], "output is the concatenated high halves; high bits zero; nothing beyond the request written");
  for (i = 0; i < SEEDN; i++) CHECK (PTR (p->_mp_seed)[i] == x[i], "state after the call is the last X");
#if FN == 1
  _gmp_rand (buf2, st2, NBITS);
  for (i = 0; i < W; i++) CHECK (buf2[i] == buf[i], "a gmp_randinit_set copy produces the same output");
#endif
VF_MAIN_END
