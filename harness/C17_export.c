/* C17: mpz_export, all limb contents. SIZE (bytes per word), NAIL (bits), ORDER (1/-1), ENDIAN (1/0/-1), ZS signed size of z,
   OFF misalignment of the buffer (0..7).  The word count depends on the bit length of z and is symbolic; MAXC bounds it.
   Checked: returned count == ceil(bitlen/numb); every byte of every produced word equals the reference bit slice with zero
   nail bits; bytes outside [0, count*SIZE) untouched; return value == data; z unchanged. */
#define VF_REC_ALLOC 1
#include "vh.h"
#define AB(x) ((x) < 0 ? -(x) : (x))
#define ZN AB (ZS)
#define NUMB (8 * SIZE - NAIL)
#define MAXC ((64 * ZN + NUMB - 1) / NUMB)
static unsigned char raw[MAXC * SIZE + 32] __attribute__ ((aligned (16)));
static unsigned long getbits (const mp_limb_t *z, unsigned long pos, int nb)   /* nb <= 8 bits at bit position pos of a (ZN+1)-limb array */
{ unsigned long li = pos / 64, bi = pos % 64; mp_limb_t lo = z[li], hi = z[li + 1];
  unsigned long v = bi ? (lo >> bi) | (hi << (64 - bi)) : lo; return v & ((1UL << nb) - 1); }
VF_MAIN_BEGIN
  mpz_t z; mp_limb_t m[ZN + 2]; size_t cnt = 12345, ecnt; unsigned long bl; int i, w, j; unsigned char *data = raw + 16 + OFF; void *ret;
  VF_FIDELITY ();
  vf_mpz_mk (z, ZN ? ZN : 1, ZS);
  for (i = 0; i < ZN + 2; i++) m[i] = i < ZN ? PTR (z)[i] : 0;
  for (i = 0; i < (int) sizeof (raw); i++) raw[i] = 0xA5;
  ret = mpz_export (data, &cnt, ORDER, SIZE, ENDIAN, NAIL, z);
  CHECK (ret == (void *) data, "returns the caller's buffer");
  if (ZN == 0) ecnt = 0; else { bl = 64UL * (ZN - 1) + vf_bsr (m[ZN - 1]) + 1; ecnt = (bl + NUMB - 1) / NUMB; }
  CHECK (cnt == ecnt, "documented word count");
  ASSUME (cnt == ecnt);
  for (w = 0; w < MAXC; w++)
    for (j = 0; j < SIZE; j++)
      { unsigned char got = data[w * SIZE + ((ENDIAN == 1) ? SIZE - 1 - j : j)];
        if ((size_t) w < cnt)
          { unsigned long k = ORDER == 1 ? cnt - 1 - w : (unsigned long) w; int nb = NUMB - 8 * j; unsigned char e;
            if (nb > 8) nb = 8;
            e = nb <= 0 ? 0 : (unsigned char) getbits (m, k * NUMB + 8 * j, nb);
            CHECK (got == e, "word byte equals the reference bit slice, nail bits zero"); }
        else CHECK (got == 0xA5, "bytes beyond count*size untouched"); }
  for (i = 0; i < 16 + OFF; i++) CHECK (raw[i] == 0xA5, "bytes before the buffer untouched");
  for (i = 16 + OFF + MAXC * SIZE; i < (int) sizeof (raw); i++) CHECK (raw[i] == 0xA5, "bytes after the buffer untouched");
  CHECK (SIZ (z) == ZS, "operand size unchanged"); for (i = 0; i < ZN; i++) CHECK (PTR (z)[i] == m[i], "operand unchanged");
VF_MAIN_END
