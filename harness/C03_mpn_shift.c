/* C03: mpn_lshift / mpn_rshift, N limbs, count symbolic 1..63, OFF = rp - sp in limbs
   (lshift: OFF >= 0 permitted, rshift: OFF <= 0 permitted; OFF=99 means separate) */
#include "vh.h"
VF_MAIN_BEGIN
  mp_limb_t buf[N + 8], s0[N], r[N], ret, want; int i; unsigned cnt;
  mp_limb_t *sp = buf + 4, *rp;
  VF_FIDELITY ();
  vf_fill (buf, N + 8);
  for (i = 0; i < N; i++) s0[i] = sp[i];
  cnt = (unsigned) in64 (); ASSUME (cnt >= 1 && cnt <= 63);
  rp = OFF == 99 ? r : sp + (OFF);
#if DIR == 0
  ret = mpn_lshift (rp, sp, N, cnt);
  CHECK (ret == s0[N - 1] >> (64 - cnt), "lshift: bits shifted out");
  for (i = 0; i < N; i++)
    { want = (s0[i] << cnt) | (i > 0 ? s0[i - 1] >> (64 - cnt) : 0); CHECK (rp[i] == want, "lshift limb"); }
#else
  ret = mpn_rshift (rp, sp, N, cnt);
  CHECK (ret == s0[0] << (64 - cnt), "rshift: bits shifted out");
  for (i = 0; i < N; i++)
    { want = (s0[i] >> cnt) | (i < N - 1 ? s0[i + 1] << (64 - cnt) : 0); CHECK (rp[i] == want, "rshift limb"); }
#endif
VF_MAIN_END
