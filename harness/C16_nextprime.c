/* C16: mpz_next_prime_candidate / mpz_nextprime for every n in [LO, HI] (table path of the real code), D-FULL on n.
   Oracle by trial division: result > n, result prime, nothing prime strictly between. */
#define VF_REC_ALLOC 1
#include "vh.h"
#ifdef VF_CBMC
typedef unsigned __CPROVER_bitvector[12] sm;
#else
typedef unsigned sm;
#endif
/* beyond the table range the real code sieves and calls Miller-Rabin; those paths are outside this harness' domain */
int mpz_miller_rabin (mpz_srcptr n, int reps, gmp_randstate_t r) { CHECK (0, "harness domain: argument below the last table prime never reaches Miller-Rabin"); ASSUME (0); return 0; }
mpir_ui mpz_fdiv_ui (mpz_srcptr n, mpir_ui d) { CHECK (0, "harness domain: argument below the last table prime never reaches the sieve"); ASSUME (0); return 0; }
static int is_prime (unsigned long x0) { sm x = (sm) x0, d; int p = x >= 2; for (d = 2; d < 34; d++) if (d < x && x % d == 0 && (unsigned long) d * d <= x0 + 40 * 40) p = 0; return p; }
VF_MAIN_BEGIN
  mpz_t n, p; gmp_randstate_t st; unsigned long a = in64 (), r; int k;
  VF_FIDELITY ();
  ASSUME (a >= LO && a <= HI);
  vf_mpz_mk (n, 1, LO == 0 ? 0 : 1); if (LO) PTR (n)[0] = a; else ASSUME (a == 0); vf_mpz_mk (p, 1, 0);
#if FN == 0
  mpz_next_prime_candidate (p, n, st);
#else
  mpz_nextprime (p, n);
#endif
  CHECK (vf_mpz_wf (p) && SIZ (p) == 1, "result positive, one limb"); r = PTR (p)[0];
  CHECK (r > a, "result greater than the argument");
  CHECK (r < 1100 && is_prime (r), "result is prime");
  for (k = 1; k <= 36; k++) if (a + k < r) CHECK (!is_prime (a + k), "no prime strictly between the argument and the result");
  CHECK (r - a <= 36, "harness bound: prime gap");
VF_MAIN_END
