/* C13: mpf addition/subtraction family and assignments with truncation, D-FULL on limb contents; sizes, precisions and
   exponents concrete per query.  FN 0 add 1 sub 2 add_ui 3 sub_ui 4 ui_sub 5 set_z 6 set 7 neg 8 abs
   PREC precision (limbs) of r; PU, SU, EU / PV, SV, EV precision, signed size, exponent of u / v; ALIAS 0 none 1 r==u 2 r==v 3 u==v
   Oracle (p = mpf_get_prec(r) = 64*(PREC-1)): format rules; |r - exact| * 2^(p-2) < max(|u|,|v|) always; for results without
   cancellation (same-sign addition, assignments) also |r - exact| * 2^(p-2) < |exact|; r == exact whenever exact fits the
   PREC+1 limbs r can hold at exact's own exponent (implies the property's "fits in p bits" clause). */
#define VF_REC_ALLOC 1
#include "vh.h"
#include "vo_mpf.h"
#define AB(x) ((x) < 0 ? -(x) : (x))
#ifndef PV
#define PV PU
#endif
#ifndef SV
#define SV 0
#endif
#ifndef EV
#define EV 0
#endif
#ifndef EXSLACK
#define EXSLACK 0
#endif
#ifndef RS0
#define RS0 0
#endif
#define PBITS (64UL * (RPREC - 1))
VF_MAIN_BEGIN
  mpf_t u, v, r; mpf_ptr up = u, vp = v, rp = r; mpz_t z; mp_limb_t tu[FW], tv[FW], te[FW], tr[FW], au[FW], av[FW], mx[FW]; int ok1 = 1, ok2 = 1, ok3, i, cancel = 0; unsigned long ui = 0;
  VF_FIDELITY ();
  vf_mpf_mk (u, PU, FN == 5 ? 0 : SU, EU);
  if (ALIAS == 3) vp = u; else vf_mpf_mk (v, PV, SV, EV);
  if (ALIAS == 1) { rp = u; } else if (ALIAS == 2) { rp = v; } else vf_mpf_mk (r, RPREC, RS0, 1);
  ASSUME (PREC (rp) == RPREC);
  vf_fx_tc (tu, up, &ok1); vf_fx_tc (tv, vp, &ok2);
  for (i = 0; i < FW; i++) tv[i] = (FN == 0 || FN == 1) ? tv[i] : 0;
  if (FN >= 2 && FN <= 4) { ui = in64 (); for (i = 0; i < FW; i++) tv[i] = 0; tv[OFFS] = ui; }
  if (FN == 5) { vf_mpz_mk (z, AB (SU) ? AB (SU) : 1, SU); { mp_limb_t m[FW]; for (i = 0; i < FW; i++) m[i] = 0; for (i = 0; i < AB (SU); i++) m[OFFS + i] = PTR (z)[i]; vf_tc_from_mag (tu, FW, m, FW, SU < 0); } }
  switch (FN) {
    case 0: mpf_add (rp, up, vp); vf_tc_add (te, tu, tv, FW); cancel = (SIZ (up) < 0) != (SIZ (vp) < 0); break;
    case 1: mpf_sub (rp, up, vp); vf_tc_sub (te, tu, tv, FW); cancel = (SIZ (up) < 0) == (SIZ (vp) < 0); break;
    case 2: mpf_add_ui (rp, up, ui); vf_tc_add (te, tu, tv, FW); cancel = SU < 0; break;
    case 3: mpf_sub_ui (rp, up, ui); vf_tc_sub (te, tu, tv, FW); cancel = SU > 0; break;
    case 4: mpf_ui_sub (rp, ui, up); vf_tc_sub (te, tv, tu, FW); cancel = SU > 0; break;
    case 5: mpf_set_z (rp, z); for (i = 0; i < FW; i++) te[i] = tu[i]; break;
    case 6: mpf_set (rp, up); for (i = 0; i < FW; i++) te[i] = tu[i]; break;
    case 7: mpf_neg (rp, up); vf_tc_neg (te, tu, FW); break;
    case 8: mpf_abs (rp, up); vf_fx_abs (te, tu); break; }
  CHECK (ok1 && ok2, "harness bound: operands inside the fixed-point window");
  CHECK (vf_mpf_wf (rp), "mpf format rules: size <= prec+1, top limb non-zero, zero has exponent 0");
  CHECK (PREC (rp) == RPREC, "precision field unchanged");
  vf_fx_tc (tr, rp, &ok3); CHECK (ok3, "result inside the fixed-point window");
  vf_fx_abs (au, tu); vf_fx_abs (av, tv); for (i = 0; i < FW; i++) mx[i] = vf_fx_lt (au, av) ? av[i] : au[i];
  CHECK (vf_fx_err_lt (tr, te, PBITS - 2, mx), "error below 2^(2-p) of the larger operand");
  if (!cancel) CHECK (vf_fx_err_lt (tr, te, PBITS - 2, te), "error below 2^(2-p) of the exact result (no cancellation)");
  { /* exact whenever representable: non-zero limbs of exact span at most PREC limbs (conservative form of "fits in p bits") */
    mp_limb_t ae[FW]; int hi = -1, lo = FW; vf_fx_abs (ae, te);
    for (i = 0; i < FW; i++) if (ae[i]) { if (lo == FW) lo = i; hi = i; }
    if ((hi < 0 || hi - lo + 1 <= RPREC - 1 + EXSLACK) && AB (SU) <= RPREC - 1 + EXSLACK && ((FN > 1) || AB (SIZ (vp)) <= RPREC - 1 + EXSLACK)) CHECK (vf_tc_eq (tr, te, FW), "exact when the exact value fits the precision"); }
  if (rp != up && FN != 5) { mp_limb_t t2[FW]; int o; vf_fx_tc (t2, up, &o); if (FN == 5) ; else CHECK (vf_tc_eq (t2, tu, FW) && SIZ (up) == SU, "operand u unchanged"); }
VF_MAIN_END
