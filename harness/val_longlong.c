/* §2.6 encoding validation: prints the results of every longlong_inc.h macro on corner and
   seeded-random vectors. Built once against the real inline asm and once against the C
   translation; the outputs must be identical. */
#include <stdio.h>
#include <stdlib.h>
#include "mpir.h"
#include "gmp-impl.h"
#include "longlong.h"
static const unsigned long C[] = {0,1,2,3,0xffffffffffffffffUL,0xfffffffffffffffeUL,0x8000000000000000UL,
 0x8000000000000001UL,0x7fffffffffffffffUL,0x4000000000000000UL,0x100000000UL,0xffffffffUL,0xffffffff00000000UL,
 0x5555555555555555UL,0xaaaaaaaaaaaaaaaaUL,0x0123456789abcdefUL};
#define NC (sizeof C / sizeof C[0])
static unsigned long s;
static unsigned long rnd (void) { s ^= s << 13; s ^= s >> 7; s ^= s << 17; return s; }
static void one (unsigned long a, unsigned long b, unsigned long c, unsigned long d, unsigned long e, unsigned long f)
{ unsigned long h, l, m, q, r; int cnt;
  add_ssaaaa (h, l, a, b, c, d); printf ("%lx %lx ", h, l);
  sub_ddmmss (h, l, a, b, c, d); printf ("%lx %lx ", h, l);
  umul_ppmm (h, l, a, b); printf ("%lx %lx ", h, l);
  if (a < c) { udiv_qrnnd (q, r, a, b, c); printf ("%lx %lx ", q, r); }
  add_333 (h, m, l, a, b, c, d, e, f); printf ("%lx %lx %lx ", h, m, l);
  sub_333 (h, m, l, a, b, c, d, e, f); printf ("%lx %lx %lx ", h, m, l);
  if (a) { count_leading_zeros (cnt, a); printf ("%d ", cnt); count_trailing_zeros (cnt, a); printf ("%d ", cnt); }
  BSWAP_LIMB (h, a); printf ("%lx\n", h); }
int main (int argc, char **argv)
{ unsigned i, j, k; s = (argc > 1 ? strtoul (argv[1], 0, 10) : 1) * 2654435761UL + 88172645463325252UL;
  for (i = 0; i < NC; i++) for (j = 0; j < NC; j++) for (k = 0; k < NC; k++)
    one (C[i], C[j], C[k], C[(i + j) % NC], C[(j + k) % NC], C[(i + k + 1) % NC]);
  for (i = 0; i < 2000; i++) { unsigned long a = rnd (), b = rnd (), c = rnd (), d = rnd (), e = rnd (), f = rnd (); one (a, b, c, d, e, f); }
  return 0; }
