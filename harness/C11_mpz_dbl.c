/* C11 double side. Doubles are handled as 64-bit patterns; E = unbiased exponent is a concrete shape parameter
   (it determines result sizes and addresses), sign and the 52 mantissa bits are symbolic. E = -1023 denotes
   zero/subnormal (biased exponent 0), E = 1024 inf.
   FN 0 mpz_get_d (SU)  1 mpz_get_d_2exp (SU)  2 mpz_set_d (E)  3 mpz_cmp_d (SU,E)  4 mpz_cmpabs_d (SU,E) 5 mpn_get_d with symbolic exp offset */
#include "vh.h"
#define AB(x) ((x) < 0 ? -(x) : (x))
#define MX(a,b) ((a) > (b) ? (a) : (b))
#ifndef E
#define E 0
#endif
typedef union { double d; unsigned long u; } dbl;
/* reference: truncate the magnitude {p,n} * 2^ex to an IEEE double bit pattern (round toward zero) */
static unsigned long ref_trunc_bits (const mp_limb_t *p, int n, int neg, long ex)
{ mp_limb_t hi, lo; int lz; long e; unsigned long m; vf_u128 x;
  if (n == 0) return 0;
  hi = p[n - 1]; lo = n >= 2 ? p[n - 2] : 0; lz = __builtin_clzl (hi);
  x = ((vf_u128) hi << 64 | lo) << lz;            /* top bit set */
  m = (unsigned long) (x >> (128 - 53));          /* 53 significant bits, truncated */
  e = 64L * n - lz - 1 + ex;                      /* exponent of the leading bit */
  if (e >= 1024) return ((unsigned long) neg << 63) | (0x7ffUL << 52);
  if (e < -1022) { long sh = -1022 - e; if (sh >= 53) return 0; /* MPIR documents +0.0 on underflow via 0.0 literal */ m >>= sh; return ((unsigned long) neg << 63) | m; }
  return ((unsigned long) neg << 63) | ((unsigned long) (e + 1023) << 52) | (m & 0xfffffffffffffUL); }
VF_MAIN_BEGIN
  mpz_t u; dbl x, r; mp_limb_t tu[8], td[8], tdiff[8]; int i;
  VF_FIDELITY ();
#if FN == 0 || FN == 1 || FN == 3 || FN == 4
  vf_mpz_mk (u, MX (1, AB (SU)), SU);
#endif
#if FN >= 2 && FN <= 4
  { unsigned long mant = in64 (), sg = in64 (); ASSUME (mant < (1UL << 52)); ASSUME (sg <= 1);
    x.u = (sg << 63) | ((unsigned long) (E + 1023) << 52) | mant; if (E == 1024) x.u &= ~0xfffffffffffffUL; }
#endif
#if FN == 0
  r.d = mpz_get_d (u);
  CHECK (r.u == ref_trunc_bits (PTR (u), AB (SU), SU < 0, 0) || (AB (SU) == 0 && r.u == 0), "get_d = value truncated toward zero");
#elif FN == 1
  { signed long ex; r.d = mpz_get_d_2exp (&ex, u);
    if (SU == 0) { CHECK (r.u == 0 && ex == 0, "get_d_2exp zero"); }
    else { int lz = __builtin_clzl (PTR (u)[AB (SU) - 1]); long bits = 64L * AB (SU) - lz;
      CHECK (ex == bits, "get_d_2exp exponent = bit length");
      CHECK (r.u == ref_trunc_bits (PTR (u), AB (SU), SU < 0, -bits), "get_d_2exp mantissa in [0.5,1) truncated"); } }
#elif FN == 2
  { mpz_t w; int n; vf_mpz_mk (w, AW, 0); mpz_set_d (w, x.d);
    CHECK (vf_mpz_wf (w), "set_d result well formed");
    /* reference: integer part of |d| = (2^52+mant) * 2^(E-52) */
    for (i = 0; i < 8; i++) td[i] = 0;
    if (E >= 0 && E != -1023) { unsigned long m = (x.u & 0xfffffffffffffUL) | (1UL << 52); int sh = E - 52;
      if (sh < 0) td[0] = m >> (-sh); else { td[sh / 64] = m << (sh % 64); if (sh % 64) td[sh / 64 + 1] = m >> (64 - sh % 64); } }
    n = AB (SIZ (w)); CHECK (n <= 7, "size bound");
    for (i = 0; i < 8; i++) CHECK ((i < n ? PTR (w)[i] : 0) == td[i], "set_d magnitude = trunc(|d|)");
    if (n) CHECK ((SIZ (w) < 0) == (int) (x.u >> 63), "set_d sign"); }
#elif FN == 3 || FN == 4
  { int got, want, neg = (int) (x.u >> 63), frac = 0; mp_limb_t tz[8], tD[8];
    got = FN == 3 ? mpz_cmp_d (u, x.d) : mpz_cmpabs_d (u, x.d);
    /* exact |d| as integer part td plus 'frac' flag for a non-zero fraction; inf handled apart */
    for (i = 0; i < 8; i++) td[i] = 0;
    if (E == -1023) frac = (x.u & 0xfffffffffffffUL) != 0;
    else if (E < 1024) { unsigned long m = (x.u & 0xfffffffffffffUL) | (1UL << 52); int sh = E - 52;
      if (sh < 0) { if (-sh < 64) { td[0] = m >> (-sh); frac = (m & ((1UL << (-sh)) - 1)) != 0; } else frac = 1; }
      else { td[sh / 64] = m << (sh % 64); if (sh % 64) td[sh / 64 + 1] = m >> (64 - sh % 64); } }
    if (FN == 4) { vf_tc_from_mag (tz, 8, PTR (u), AB (SU), 0); neg = 0; } else vf_tc_from_mpz (tz, 8, u);
    if (neg) vf_tc_neg (tD, td, 8); else for (i = 0; i < 8; i++) tD[i] = td[i];
    if (E == 1024) want = neg ? 1 : -1;
    else { vf_tc_sub (tdiff, tz, tD, 8);
      if (tdiff[7] >> 63) want = -1; else { want = 0; for (i = 0; i < 8; i++) if (tdiff[i]) want = 1; }
      /* z - floor-toward-zero(d): correct by the fraction: d = sgn*(int+frac) */
      if (want == 0 && frac) want = neg ? 1 : -1; }
    CHECK ((got > 0) == (want > 0) && (got < 0) == (want < 0), "cmp_d sign = sign of exact difference"); }
#elif FN == 5
  { mp_limb_t p[3]; long ex = (long) in64 (); long sg = (long) in64 (); ASSUME (ex >= -1400 && ex <= 1200); ASSUME (sg == 1 || sg == -1);
    vf_fill (p, SU); ASSUME (p[SU - 1] != 0);
    r.d = mpn_get_d (p, SU, sg, ex);
    CHECK (r.u == ref_trunc_bits (p, SU, sg < 0, ex) || (r.u << 1) == 0 && (ref_trunc_bits (p, SU, sg < 0, ex) << 1) == 0, "mpn_get_d truncation / clamp"); }
#endif
VF_MAIN_END
