/* C03: mpz_add_ui / mpz_sub_ui / mpz_ui_sub, SU signed size, ui symbolic 64 bit. FN 0 add_ui 1 sub_ui 2 ui_sub. ALIAS 0/1 (w==u) */
#include "vh.h"
#define AB(x) ((x) < 0 ? -(x) : (x))
#define MX(a,b) ((a) > (b) ? (a) : (b))
#define W (AB (SU) + 3)
VF_MAIN_BEGIN
  mpz_t u, w; mpz_ptr wp = ALIAS ? u : w; mp_limb_t tu[W], tv[W], tw[W], te[W], u0[AB (SU) + 1]; unsigned long ui; int i;
  VF_FIDELITY ();
  vf_mpz_mk (u, MX (1, AB (SU)), SU); if (!ALIAS) vf_mpz_mk (w, AW, 0);
  ui = in64 ();
  vf_tc_from_mpz (tu, W, u); for (i = 0; i < W; i++) tv[i] = 0; tv[0] = ui;
  for (i = 0; i < AB (SU); i++) u0[i] = PTR (u)[i];
  if (FN == 0) { mpz_add_ui (wp, u, ui); vf_tc_add (te, tu, tv, W); }
  else if (FN == 1) { mpz_sub_ui (wp, u, ui); vf_tc_sub (te, tu, tv, W); }
  else { mpz_ui_sub (wp, ui, u); vf_tc_sub (te, tv, tu, W); }
  CHECK (vf_mpz_wf (wp), "result well formed");
  CHECK (AB (SIZ (wp)) <= W - 1, "result size bound");
  vf_tc_from_mpz (tw, W, wp);
  CHECK (vf_tc_eq (tw, te, W), "exact signed result");
  if (!ALIAS) { CHECK (SIZ (u) == SU, "u size unchanged"); for (i = 0; i < AB (SU); i++) CHECK (PTR (u)[i] == u0[i], "u unchanged"); }
VF_MAIN_END
