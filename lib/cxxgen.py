#!/usr/bin/env python3
"""C20: generator of C++ expression programs over mpz_class / mpq_class objects and built-in operands.
An expression is a nested tuple: ('leaf', name) | ('un', op, e) | ('bin', op, e1, e2) | ('fn1', name, e) | ('fn2', name, e1, e2)
A program is (kind, target, asgop, expr): target in object names; asgop in '=', '+=', ...   kind 'z' (mpz_class) or 'q' (mpq_class)."""
import itertools, json

ZOBJ = ["a", "b", "c"]          # mpz_class &
QOBJ = ["q", "r", "s"]          # mpq_class &
BUILTIN = {"l": "long", "u": "unsigned long"}

def cxx(e):
    k = e[0]
    if k == "leaf":
        return e[1]
    if k == "un":
        return "(%s(%s))" % (e[1], cxx(e[2]))
    if k == "bin":
        return "(%s %s %s)" % (cxx(e[2]), e[1], cxx(e[3]))
    if k == "fn1":
        return "%s(%s)" % (e[1], cxx(e[2]))
    if k == "fn2":
        return "%s(%s, %s)" % (e[1], cxx(e[2]), cxx(e[3]))
    raise ValueError(e)

def leaves(e):
    if e[0] == "leaf":
        return [e[1]]
    return sum([leaves(x) for x in e[2:] if isinstance(x, tuple)], [])

def has_obj(e, objs):
    return any(x in objs for x in leaves(e))

def gen_z(depth, tier):
    """well-typed mpz expression trees: at least one class object in every binary node (mpirxx has no builtin-op-builtin)"""
    ops = ["+", "-", "*", "/", "%"] + (["&", "|", "^"] if tier == "thorough" else [])
    L = [("leaf", x) for x in ZOBJ]
    B = [("leaf", x) for x in BUILTIN]
    d0 = L
    d1 = []
    for op in ops:
        for x, y in itertools.product(L[:2] + B, L[:2] + B):
            if x[0] == "leaf" and y[0] == "leaf" and x[1] in BUILTIN and y[1] in BUILTIN:
                continue
            if op in ("&", "|", "^") and (x[1] in BUILTIN or y[1] in BUILTIN):
                continue
            d1.append(("bin", op, x, y))
    d1 += [("un", "-", L[0]), ("fn1", "abs", L[0])]
    if tier == "thorough":
        d1 += [("un", "~", L[0])]
    d2 = []
    if depth >= 2:
        sub = [e for e in d1 if e[0] == "bin" and e[1] in ("+", "-", "*") and not any(v in BUILTIN for v in leaves(e))][:6] + [("bin", "*", L[1], ("leaf", "l")), ("bin", "-", ("leaf", "u"), L[1]), ("un", "-", L[1])]
        for op in (ops[:5] if tier == "thorough" else ["+", "-", "*", "/"]):
            for s in sub:
                for o in (L[0], L[2], ("leaf", "l")):
                    d2.append(("bin", op, s, o)); d2.append(("bin", op, o, s))
            for s1, s2 in ((sub[0], sub[1]), (sub[1], sub[4]), (sub[2], sub[0]), (sub[6], sub[1]), (sub[4], sub[8]))[: 5 if tier == "thorough" else 3]:
                d2.append(("bin", op, s1, s2))
        d2 += [("un", "-", s) for s in sub[:3]] + [("fn1", "abs", s) for s in sub[:2]]
    return d0, d1, d2

def programs(tier):
    depth = 2
    out = []
    d0, d1, d2 = gen_z(depth, tier)
    for e in d0[1:2]:
        out.append(("z", "a", "=", e))
    for e in d1 + d2:
        out.append(("z", "a", "=", e))          # target a occurs in many trees (aliasing inside the expression)
    for e in d1[:40:3] + d2[::4]:
        out.append(("z", "c", "=", e))
    for op in ("+=", "-=", "*=", "/=", "%="):
        for e in [("leaf", "b"), ("leaf", "a"), ("leaf", "l"), ("leaf", "u")] + d1[:12:2] + d2[:12:5]:
            out.append(("z", "a", op, e))
    # mpq programs
    Q = [("leaf", x) for x in QOBJ]
    Z = [("leaf", "a"), ("leaf", "b")]
    qd1 = []
    for op in ("+", "-", "*", "/"):
        for x, y in ((Q[0], Q[1]), (Q[1], Q[0]), (Q[0], Q[0]), (Q[1], ("leaf", "l")), (("leaf", "l"), Q[1]), (Q[1], ("leaf", "u")), (Q[0], Z[0]), (Z[0], Q[1])):
            qd1.append(("bin", op, x, y))
    qd1 += [("un", "-", Q[0]), ("un", "-", Q[1]), ("fn1", "abs", Q[1])]
    for e in [Q[1], Z[0], ("bin", "+", Z[0], Z[1]), ("bin", "*", Z[0], ("leaf", "l")), ("un", "-", Z[0])] + qd1:
        out.append(("q", "q", "=", e))
    qsub = [("bin", "+", Q[1], Q[2]), ("bin", "*", Q[0], Q[2]), ("bin", "+", Z[0], Z[1]), ("un", "-", Q[0])]
    for op in ("+", "-", "*", "/"):
        for s in qsub:
            out.append(("q", "q", "=", ("bin", op, s, Q[1]))); out.append(("q", "q", "=", ("bin", op, Q[1], s)))
        out.append(("q", "q", "=", ("bin", op, qsub[0], qsub[1])))
    for op in ("+=", "-=", "*=", "/="):
        for e in (Q[1], Q[0], ("leaf", "l"), qsub[0], qsub[2]):
            out.append(("q", "q", op, e))
    # dedupe
    seen, res = set(), []
    for p in out:
        k = json.dumps(p)
        if k not in seen:
            seen.add(k); res.append(p)
    return res

def wrapper(i, prog):
    kind, tgt, asg, e = prog
    return 'extern "C" __attribute__((noinline)) void w%d (mpz_class &a, mpz_class &b, mpz_class &c, mpq_class &q, mpq_class &r, mpq_class &s, long l, unsigned long u) { %s %s %s; }' % (i, tgt, asg, cxx(e))

if __name__ == "__main__":
    import sys
    ps = programs(sys.argv[1] if len(sys.argv) > 1 else "quick")
    print('#include "mpirxx.h"')
    for i, p in enumerate(ps):
        print(wrapper(i, p))
