#!/usr/bin/env python3
"""E2b (C14): translate a yasm (Intel syntax) x86-64 kernel of the tree into C with ISA semantics, for CBMC.

The kernel is preprocessed exactly as mpn/Makefile does it (`yasm -e` with the tree's yasm_mac.inc on the include path), then each
instruction is turned into C statements over sixteen 64-bit register variables, the flags CF ZF SF OF, and a flat limb memory
(`vm[]`, addresses are plain integers; with concrete operand lengths and base addresses every address folds to a constant).
Labels become C labels, jumps become gotos, `ret` checks the System V callee-saved registers and the stack pointer.
An unknown mnemonic / operand form raises AsmError: that kernel is reported as 'not encoded' (never silently mistranslated).
Multiplication goes through VK_MUL (exact 128-bit product, or the shared uninterpreted pair in the D-UF overlay)."""
import re, subprocess, os


class AsmError(Exception):
    pass


R64 = ["rax", "rbx", "rcx", "rdx", "rsi", "rdi", "rbp", "rsp"] + ["r%d" % i for i in range(8, 16)]
REGS = {}
for r in R64:
    REGS[r] = (r, 64)
for a, b in (("eax", "rax"), ("ebx", "rbx"), ("ecx", "rcx"), ("edx", "rdx"), ("esi", "rsi"), ("edi", "rdi"), ("ebp", "rbp"), ("esp", "rsp")):
    REGS[a] = (b, 32)
for i in range(8, 16):
    REGS["r%dd" % i] = ("r%d" % i, 32); REGS["r%dw" % i] = ("r%d" % i, 16); REGS["r%db" % i] = ("r%d" % i, 8)
for a, b in (("ax", "rax"), ("bx", "rbx"), ("cx", "rcx"), ("dx", "rdx"), ("si", "rsi"), ("di", "rdi"), ("bp", "rbp")):
    REGS[a] = (b, 16)
for a, b in (("al", "rax"), ("bl", "rbx"), ("cl", "rcx"), ("dl", "rdx"), ("sil", "rsi"), ("dil", "rdi"), ("bpl", "rbp")):
    REGS[a] = (b, 8)
UT = {64: "uint64_t", 32: "uint32_t", 16: "uint16_t", 8: "uint8_t"}
CC = {"c": "CF", "b": "CF", "nae": "CF", "nc": "!CF", "ae": "!CF", "nb": "!CF", "z": "ZF", "e": "ZF", "nz": "!ZF", "ne": "!ZF",
      "a": "(!CF && !ZF)", "nbe": "(!CF && !ZF)", "be": "(CF || ZF)", "na": "(CF || ZF)", "s": "SF", "ns": "!SF", "o": "OF", "no": "!OF",
      "l": "(SF != OF)", "nge": "(SF != OF)", "ge": "(SF == OF)", "nl": "(SF == OF)", "le": "(ZF || SF != OF)", "ng": "(ZF || SF != OF)", "g": "(!ZF && SF == OF)", "nle": "(!ZF && SF == OF)"}


def preprocess(path, incdirs):
    cmd = ["yasm", "-e"] + sum([["-I", d] for d in incdirs], []) + [path]
    p = subprocess.run(cmd, stdout=subprocess.PIPE, stderr=subprocess.PIPE, text=True, cwd=os.path.dirname(path))
    if p.returncode:
        raise AsmError("yasm -e failed: " + p.stderr[-300:])
    return p.stdout


class Op:
    def __init__(self, kind, w, rd=None, wr=None, text=""):
        self.kind, self.w, self.rd, self.wr, self.text = kind, w, rd, wr, text


def parse_operand(s, defw=None):
    s = s.strip()
    m = re.match(r"^(qword|dword|word|byte)\s+(ptr\s+)?(.*)$", s, re.I)
    size = None
    if m:
        size = {"qword": 64, "dword": 32, "word": 16, "byte": 8}[m.group(1).lower()]
        s = m.group(3).strip()
    low = s.lower()
    if low in REGS:
        b, w = REGS[low]
        if w == 64:
            return Op("reg", 64, rd=b, wr=lambda v, b=b: "%s = (uint64_t) (%s);" % (b, v), text=low)
        if w == 32:
            return Op("reg", 32, rd="((uint32_t) %s)" % b, wr=lambda v, b=b: "%s = (uint64_t) (uint32_t) (%s);" % (b, v), text=low)
        return Op("reg", w, rd="((%s) %s)" % (UT[w], b), wr=lambda v, b=b, w=w: "%s = (%s & ~(uint64_t) %d) | (uint64_t) (%s) (%s);" % (b, b, (1 << w) - 1, UT[w], v), text=low)
    if s.startswith("["):
        if not s.endswith("]"):
            raise AsmError("memory operand " + s)
        addr = parse_addr(s[1:-1])
        w = size or defw or 64
        if w != 64:
            raise AsmError("non-64-bit memory operand " + s)
        return Op("mem", 64, rd="(*vk_at (%s))" % addr, wr=lambda v, addr=addr: "*vk_at (%s) = (uint64_t) (%s);" % (addr, v), text=s)
    # immediate expression
    if re.match(r"^[-+*/()0-9a-fA-FxXhH\s~<>&|]+$", s):
        e = re.sub(r"\b([0-9][0-9a-fA-F]*)[hH]\b", r"0x\1", s)
        return Op("imm", size or defw or 64, rd="((int64_t) (%s))" % e, text=s)
    raise AsmError("operand " + s)


def parse_addr(s):
    terms = []
    for sign, term in re.findall(r"([+-]?)\s*([^+-]+)", s.replace(" ", "")):
        t = term.lower()
        m = re.match(r"^(\w+)\*(\d+)$", t) or re.match(r"^(\d+)\*(\w+)$", t)
        if t in REGS and REGS[t][1] == 64:
            e = t
        elif m and ((m.group(1) in REGS and REGS[m.group(1)][1] == 64) or (m.group(2) in REGS and REGS[m.group(2)][1] == 64)):
            r_, k = (m.group(1), m.group(2)) if m.group(1) in REGS else (m.group(2), m.group(1))
            e = "%s * %sULL" % (r_, k)
        elif re.match(r"^[0-9a-fx*()]+$", t):
            e = "(uint64_t) (%s)" % t
        else:
            raise AsmError("address term " + term)
        terms.append(("- " if sign == "-" else "+ ") + e)
    return "(uint64_t) (0 " + " ".join(terms) + ")"


def mask(w):
    return {64: "0xffffffffffffffffULL", 32: "0xffffffffULL", 16: "0xffffULL", 8: "0xffULL"}[w]


def translate(text, fname):
    """-> (C source of `static uint64_t <fname> (uint64_t a0..a5)`, stats dict)"""
    lines = []
    for ln in text.split("\n"):
        ln = ln.split(";")[0].strip()
        if not ln or ln.startswith("%"):
            continue
        lines.append(ln)
    out = []
    nins = 0
    started = False
    labels = set()
    def lab(l):
        return "L_" + re.sub(r"[^A-Za-z0-9_]", "_", l)
    for ln in lines:
        if ln.startswith("["):
            d = ln.strip("[]").lower()
            if d.startswith("section") and started and not ("text" in d):
                raise AsmError("data section inside kernel: " + ln)
            continue
        m = re.match(r"^([.\w$@]+):\s*(.*)$", ln)
        if m:
            l = m.group(1)
            if not started:
                started = True      # function entry labels (__gmpn_x: / mpn_x:)
            else:
                out.append("%s: ;" % lab(l)); labels.add(l)
            ln = m.group(2).strip()
            if not ln:
                continue
        if not started:
            continue
        low = ln.lower()
        if re.match(r"^(align|alignb|global|extern|bits|section|cpu|default)\b", low):
            continue
        if re.match(r"^(db|dw|dd|dq|times|resb|resq)\b", low):
            raise AsmError("data directive: " + ln)
        parts = ln.split(None, 1)
        mn = parts[0].lower()
        if mn in ("rep", "repz", "repe", "repnz", "lock"):
            raise AsmError("prefix " + mn)
        ops = [o.strip() for o in split_ops(parts[1])] if len(parts) > 1 else []
        out.append("/* %s */" % ln.replace("*/", "* /"))
        out += ins(mn, ops, lab)
        nins += 1
    body = "\n  ".join(out)
    src = """static uint64_t %s (uint64_t a0, uint64_t a1, uint64_t a2, uint64_t a3, uint64_t a4, uint64_t a5)
{ uint64_t rax = vk_junk (0), rbx = vk_junk (1), rcx = a3, rdx = a2, rsi = a1, rdi = a0, rbp = vk_junk (2), rsp = VK_STACK_TOP, r8 = a4, r9 = a5,
    r10 = vk_junk (3), r11 = vk_junk (4), r12 = vk_junk (5), r13 = vk_junk (6), r14 = vk_junk (7), r15 = vk_junk (8);
  const uint64_t s_rbx = rbx, s_rbp = rbp, s_r12 = r12, s_r13 = r13, s_r14 = r14, s_r15 = r15;
  int CF = vk_junk (9) & 1, ZF = vk_junk (10) & 1, SF = vk_junk (11) & 1, OF = vk_junk (12) & 1;
  uint64_t t_a, t_b, t_r, t_c; unsigned __int128 t_w;
  uint64_t vr[16][4] = { VK_VR_INIT };
  %s
  VK_FELL_OFF ();
  return rax; }
""" % (fname, body)
    return src, {"instructions": nins, "labels": len(labels)}


def split_ops(s):
    out, d, cur = [], 0, ""
    for c in s:
        if c == "[":
            d += 1
        if c == "]":
            d -= 1
        if c == "," and d == 0:
            out.append(cur); cur = ""
        else:
            cur += c
    out.append(cur)
    return out


def flags_zs(w):
    return "ZF = ((t_r & %s) == 0); SF = (int) ((t_r >> %d) & 1);" % (mask(w), w - 1)


VMOVS = {"vmovdqu": (1, 0), "vmovdqa": (1, 1), "vmovups": (1, 0), "vmovaps": (1, 1), "vmovntdq": (1, 1), "vlddqu": (1, 0),
         "movdqu": (0, 0), "movdqa": (0, 1), "movups": (0, 0), "movaps": (0, 1), "movntdq": (0, 1), "lddqu": (0, 0)}


def vec_ins(mn, ops):
    """whole-register vector moves (the only SSE/AVX instructions modelled): register file vr[16][4] of 64-bit lanes.
    VEX forms zero the upper lanes of the destination register on xmm writes, legacy SSE forms preserve them (SDM)."""
    if mn == "vzeroupper":
        return [" ".join("vr[%d][2] = 0; vr[%d][3] = 0;" % (k, k) for k in range(16))]
    vex, aligned = VMOVS[mn]
    if len(ops) != 2:
        raise AsmError("vector move operands")
    def vreg(x):
        m = re.match(r"^([xy])mm(\d+)$", x.strip().lower())
        return (m.group(1), int(m.group(2))) if m else None
    def vmem(x):
        x = re.sub(r"^(oword|yword|xmmword|ymmword|dqword)\s+(ptr\s+)?", "", x.strip(), flags=re.I)
        if not (x.startswith("[") and x.endswith("]")):
            raise AsmError("operand " + x)
        return parse_addr(x[1:-1])
    d, sr = vreg(ops[0]), vreg(ops[1])
    out = []
    if d and sr:
        n = 4 if d[0] == "y" else 2
        out += ["vr[%d][%d] = vr[%d][%d];" % (d[1], i, sr[1], i) for i in range(n)]
        if vex and n == 2:
            out += ["vr[%d][2] = 0; vr[%d][3] = 0;" % (d[1], d[1])]
        return out
    if d:
        n = 4 if d[0] == "y" else 2; a = vmem(ops[1])
        if aligned:
            out.append('CHECK (((%s) & %d) == 0, "aligned vector load from an aligned address");' % (a, 8 * n - 1))
        out += ["vr[%d][%d] = *vk_at (%s + %dULL);" % (d[1], i, a, 8 * i) for i in range(n)]
        if vex and n == 2:
            out += ["vr[%d][2] = 0; vr[%d][3] = 0;" % (d[1], d[1])]
        return out
    if sr:
        n = 4 if sr[0] == "y" else 2; a = vmem(ops[0])
        if aligned:
            out.append('CHECK (((%s) & %d) == 0, "aligned vector store to an aligned address");' % (a, 8 * n - 1))
        # all lanes are read before the first is written (one instruction)
        out += ["{ uint64_t t_v[4]; " + " ".join("t_v[%d] = vr[%d][%d];" % (i, sr[1], i) for i in range(n)) + " " + " ".join("*vk_at (%s + %dULL) = t_v[%d];" % (a, 8 * i, i) for i in range(n)) + " }"]
        return out
    raise AsmError("vector move without a register operand")


def ins(mn, ops, lab):
    if mn in VMOVS or mn == "vzeroupper":
        return vec_ins(mn, ops)
    o = [parse_operand(x) for x in ops] if mn not in ("jmp", "call") and not (mn.startswith("j") and mn[1:] in CC) and mn not in ("jrcxz", "jecxz") else []
    def W():
        ws = [x.w for x in o if x.kind != "imm"]
        if not ws:
            raise AsmError("operand width")
        if len(set(ws)) > 1 and mn not in ("shl", "shr", "sar", "rol", "ror", "rcl", "rcr", "shld", "shrd", "movzx", "movsx", "movsxd", "bt"):
            raise AsmError("mixed operand widths: %s %s" % (mn, ops))
        return ws[0]
    def rd(x, w):
        if x.kind == "imm":
            return "((uint64_t) %s & %s)" % (x.rd, mask(w))
        return "((uint64_t) %s)" % x.rd
    if mn == "nop":
        return []
    if mn == "mov":
        w = W(); return [o[0].wr(rd(o[1], w))]
    if mn in ("movzx",):
        return [o[0].wr(rd(o[1], o[1].w))]
    if mn == "lea":
        if o[1].kind != "mem":
            raise AsmError("lea operand")
        addr = re.match(r"^\(\*vk_at \((.*)\)\)$", o[1].rd).group(1)
        return [o[0].wr(addr)]
    if mn in ("add", "adc", "sub", "sbb", "cmp"):
        w = W(); sub = mn in ("sub", "sbb", "cmp"); c = "CF" if mn in ("adc", "sbb") else "0"
        L = ["t_a = %s; t_b = %s; t_c = %s;" % (rd(o[0], w), rd(o[1], w), c)]
        if sub:
            L.append("t_w = (unsigned __int128) t_a - t_b - t_c; t_r = (uint64_t) t_w & %s; CF = (int) (((unsigned __int128) t_b + t_c) > t_a);" % mask(w))
            L.append("OF = (int) ((((t_a ^ t_b) & (t_a ^ t_r)) >> %d) & 1);" % (w - 1))
        else:
            L.append("t_w = (unsigned __int128) t_a + t_b + t_c; t_r = (uint64_t) t_w & %s; CF = (int) ((t_w >> %d) & 1);" % (mask(w), w))
            L.append("OF = (int) ((((t_a ^ t_r) & (t_b ^ t_r)) >> %d) & 1);" % (w - 1))
        L.append(flags_zs(w))
        if mn != "cmp":
            L.append(o[0].wr("t_r"))
        return L
    if mn in ("and", "or", "xor", "test"):
        w = W(); cop = {"and": "&", "or": "|", "xor": "^", "test": "&"}[mn]
        L = ["t_r = (%s %s %s) & %s; CF = 0; OF = 0;" % (rd(o[0], w), cop, rd(o[1], w), mask(w)), flags_zs(w)]
        if mn != "test":
            L.append(o[0].wr("t_r"))
        return L
    if mn in ("inc", "dec"):
        w = W()
        L = ["t_a = %s; t_r = (t_a %s 1) & %s;" % (rd(o[0], w), "+" if mn == "inc" else "-", mask(w))]
        L.append("OF = (t_r == %s);" % ("(1ULL << %d)" % (w - 1) if mn == "inc" else "((1ULL << %d) - 1)" % (w - 1)))
        L += [flags_zs(w), o[0].wr("t_r")]
        return L
    if mn == "neg":
        w = W(); return ["t_a = %s; t_r = (0 - t_a) & %s; CF = (t_a != 0); OF = (t_a == (1ULL << %d));" % (rd(o[0], w), mask(w), w - 1), flags_zs(w), o[0].wr("t_r")]
    if mn == "not":
        w = W(); return [o[0].wr("(~%s) & %s" % (rd(o[0], w), mask(w)))]
    if mn in ("shl", "sal", "shr", "sar"):
        w = o[0].w
        cnt = "(%s & %d)" % (rd(o[1], 8) if len(o) > 1 else "1ULL", 63 if w == 64 else 31)
        L = ["t_a = %s; t_c = %s;" % (rd(o[0], w), cnt), "if (t_c != 0) {"]
        if mn in ("shl", "sal"):
            L.append("  CF = (int) ((t_a >> (%d - t_c)) & 1); t_r = (t_a << t_c) & %s; OF = (int) (((t_r >> %d) & 1) ^ CF);" % (w, mask(w), w - 1))
        elif mn == "shr":
            L.append("  CF = (int) ((t_a >> (t_c - 1)) & 1); t_r = t_a >> t_c; OF = (int) ((t_a >> %d) & 1);" % (w - 1))
        else:
            if w != 64:
                raise AsmError("sar width")
            L.append("  CF = (int) ((t_a >> (t_c - 1)) & 1); t_r = (uint64_t) ((int64_t) t_a >> t_c); OF = 0;")
        L += ["  " + flags_zs(w), "  " + o[0].wr("t_r"), "}"]
        return L
    if mn in ("shld", "shrd"):
        w = o[0].w
        if w != 64:
            raise AsmError("shld/shrd width")
        cnt = "(%s & 63)" % rd(o[2], 8)
        L = ["t_a = %s; t_b = %s; t_c = %s;" % (rd(o[0], w), rd(o[1], w), cnt), "if (t_c != 0) {"]
        if mn == "shld":
            L.append("  CF = (int) ((t_a >> (64 - t_c)) & 1); t_r = (t_a << t_c) | (t_b >> (64 - t_c));")
        else:
            L.append("  CF = (int) ((t_a >> (t_c - 1)) & 1); t_r = (t_a >> t_c) | (t_b << (64 - t_c));")
        L += ["  OF = (int) (((t_a ^ t_r) >> 63) & 1); " + flags_zs(w), "  " + o[0].wr("t_r"), "}"]
        return L
    if mn in ("rcl", "rcr"):
        w = o[0].w
        if len(o) > 1 and not (o[1].kind == "imm" and o[1].text.strip() == "1"):
            raise AsmError("rcl/rcr by other than 1")
        if mn == "rcl":
            return ["t_a = %s; t_r = ((t_a << 1) | (uint64_t) CF) & %s; CF = (int) ((t_a >> %d) & 1); OF = (int) (((t_r >> %d) & 1) ^ CF);" % (rd(o[0], w), mask(w), w - 1, w - 1), o[0].wr("t_r")]
        return ["t_a = %s; t_r = (t_a >> 1) | ((uint64_t) CF << %d); OF = (int) (((t_a >> %d) & 1) ^ CF); CF = (int) (t_a & 1);" % (rd(o[0], w), w - 1, w - 1), o[0].wr("t_r")]
    if mn == "bt":
        w = o[0].w
        if o[0].kind == "mem":
            raise AsmError("bt on memory")
        return ["CF = (int) ((%s >> (%s & %d)) & 1);" % (rd(o[0], w), rd(o[1], 8), w - 1)]
    if mn == "push":
        return ["rsp -= 8; *vk_at (rsp) = %s;" % rd(o[0], 64)]
    if mn == "pop":
        return ["t_r = *vk_at (rsp); rsp += 8;", o[0].wr("t_r")]
    if mn == "ret":
        return ["VK_RET_CHECK (); return rax;"]
    if mn == "jmp":
        return ["goto %s;" % lab(ops[0].strip())]
    if mn.startswith("j") and mn[1:] in CC:
        return ["if (%s) goto %s;" % (CC[mn[1:]], lab(ops[0].strip()))]
    if mn in ("jrcxz", "jecxz"):
        return ["if (%s == 0) goto %s;" % ("rcx" if mn == "jrcxz" else "(uint32_t) rcx", lab(ops[0].strip()))]
    if mn.startswith("cmov") and mn[4:] in CC:
        w = W(); return ["if (%s) { %s }%s" % (CC[mn[4:]], o[0].wr(rd(o[1], w)), (" else { %s }" % o[0].wr(rd(o[0], w))) if w == 32 else "")]
    if mn.startswith("set") and mn[3:] in CC:
        return [o[0].wr("(%s) ? 1 : 0" % CC[mn[3:]])]
    if mn == "xchg":
        w = W(); return ["t_a = %s; t_b = %s;" % (rd(o[0], w), rd(o[1], w)), o[0].wr("t_b"), o[1].wr("t_a")]
    if mn == "mul":
        if o[0].w != 64:
            raise AsmError("mul width")
        return ["t_a = rax; t_b = %s; rax = VK_MUL_LO (t_a, t_b); rdx = VK_MUL_HI (t_a, t_b); CF = OF = (rdx != 0);" % rd(o[0], 64)]
    if mn == "imul":
        if len(o) == 2 and o[0].w == 64:
            return ["t_a = %s; t_b = %s; t_r = VK_MUL_LO (t_a, t_b);" % (rd(o[0], 64), rd(o[1], 64)), o[0].wr("t_r")]
        if len(o) == 3 and o[0].w == 64:
            return ["t_a = %s; t_b = %s; t_r = VK_MUL_LO (t_a, t_b);" % (rd(o[1], 64), rd(o[2], 64)), o[0].wr("t_r")]
        raise AsmError("imul form")
    if mn == "mulx":
        if o[0].w != 64:
            raise AsmError("mulx width")
        return ["t_a = rdx; t_b = %s; t_r = VK_MUL_LO (t_a, t_b); t_c = VK_MUL_HI (t_a, t_b);" % rd(o[2], 64), o[1].wr("t_r"), o[0].wr("t_c")]
    if mn in ("adcx", "adox"):
        f = "CF" if mn == "adcx" else "OF"
        return ["t_w = (unsigned __int128) %s + %s + (uint64_t) %s; %s = (int) ((t_w >> 64) & 1);" % (rd(o[0], 64), rd(o[1], 64), f, f), o[0].wr("(uint64_t) t_w")]
    if mn in ("clc", "stc", "cmc"):
        return [{"clc": "CF = 0;", "stc": "CF = 1;", "cmc": "CF = !CF;"}[mn]]
    if mn in ("bsr", "bsf"):
        return ["t_a = %s; ZF = (t_a == 0); if (t_a != 0) { t_r = %s (t_a); %s }" % (rd(o[1], 64), "vf_bsr" if mn == "bsr" else "vf_bsf", o[0].wr("t_r"))]
    if mn == "popcnt" or mn == "lzcnt" or mn == "tzcnt":
        raise AsmError("mnemonic " + mn)
    raise AsmError("mnemonic " + mn)
