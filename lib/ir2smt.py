#!/usr/bin/env python3-vt
"""E3 (C20): symbolic execution of clang's LLVM IR for extern "C" wrappers around mpirxx.h expressions, decided by z3.

usage: ir2smt.py <file.ll> <programs.json> <out.json> [first last]

For each wrapper function w<i> (one C++ statement `target asg expr` over mpz_class a,b,c / mpq_class q,r,s / long l / unsigned long u)
and each aliasing of the class-object parameters (set partitions of the objects the statement mentions: concrete per query), the IR is
executed symbolically: registers hold z3 bit-vectors or concrete pointers, every __mpz_struct is a memory cell holding a 256-bit
two's-complement value, struct field accesses that mpir.h's inline functions compile to (_mp_size loads/stores, limb loads) are
interpreted on that value, calls to __gmpz_* / __gmpq_* apply their C-level semantics (sources read before the destination is
written), branches on symbolic conditions fork the path.  At every `ret` the solver is asked for operand values with
   path condition  AND  NOT (target == reference  AND  every other object unchanged)
where `reference` is the expression tree evaluated node by node with the same semantic functions (every sub-expression into its own
temporary).  unsat on every path = the statement agrees with the C functions for all operand values (|value| < 2^128 on input) and
this aliasing.  Multiplication, mpq arithmetic and big division are uninterpreted functions shared by both sides (commutative where the C
function is); division is exact when both magnitudes fit 64 bits.  A model is returned for native replay by the driver.
"""
import re, sys, json, time, itertools
import z3

W = 256
INB = 128           # input magnitudes below 2^INB


class Unsupported(Exception):
    pass


# ---------------------------------------------------------------------------------------------------------------- types
class Types:
    def __init__(self, text):
        self.named = {}
        for m in re.finditer(r"^(%[\w.\"]+) = type (.*)$", text, re.M):
            self.named[m.group(1)] = m.group(2).strip()
        self.cache = {}

    def parse(self, s):
        s = s.strip()
        if s in self.cache:
            return self.cache[s]
        t = self._parse(s)
        self.cache[s] = t
        return t

    def _parse(self, s):
        if s.endswith("*"):
            return ("ptr", s[:-1].strip())
        m = re.match(r"^i(\d+)$", s)
        if m:
            return ("int", int(m.group(1)))
        if s in ("double", "float"):
            return ("fp", 64 if s == "double" else 32)
        m = re.match(r"^\[(\d+) x (.*)\]$", s)
        if m:
            return ("arr", int(m.group(1)), m.group(2).strip())
        if s.startswith("{"):
            inner = s[1:-1].strip()
            return ("struct", self._split(inner))
        if s.startswith("%"):
            if s not in self.named:
                raise Unsupported("unknown type " + s)
            return self.parse(self.named[s])
        if s == "opaque":
            raise Unsupported("opaque type")
        raise Unsupported("type " + s)

    @staticmethod
    def _split(s):
        out, d, cur = [], 0, ""
        for c in s:
            if c in "[{(":
                d += 1
            if c in "]})":
                d -= 1
            if c == "," and d == 0:
                out.append(cur.strip()); cur = ""
            else:
                cur += c
        if cur.strip():
            out.append(cur.strip())
        return out

    def size_align(self, s):
        t = self.parse(s)
        if t[0] == "ptr":
            return 8, 8
        if t[0] == "int":
            b = max(1, (t[1] + 7) // 8)
            return b, b
        if t[0] == "fp":
            return t[1] // 8, t[1] // 8
        if t[0] == "arr":
            sz, al = self.size_align(t[2])
            return sz * t[1], al
        if t[0] == "struct":
            off, mal = 0, 1
            for f in t[1]:
                sz, al = self.size_align(f)
                off = (off + al - 1) // al * al + sz
                mal = max(mal, al)
            return (off + mal - 1) // mal * mal, mal
        raise Unsupported("sizeof")

    def field_off(self, s, idx):
        t = self.parse(s)
        off = 0
        for i, f in enumerate(t[1]):
            sz, al = self.size_align(f)
            off = (off + al - 1) // al * al
            if i == idx:
                return off, f
            off += sz
        raise Unsupported("field index")

    def is_mpz(self, s):
        return s.strip() == "%struct.__mpz_struct"

    def mpz_offsets(self, s, base=0):
        """byte offsets of every __mpz_struct inside type s"""
        s = s.strip()
        if self.is_mpz(s):
            return [base]
        t = self.parse(s)
        if t[0] == "arr":
            sz, _ = self.size_align(t[2])
            return sum([self.mpz_offsets(t[2], base + i * sz) for i in range(t[1])], [])
        if t[0] == "struct":
            out = []
            for i in range(len(t[1])):
                off, f = self.field_off(s, i)
                out += self.mpz_offsets(f, base + off)
            return out
        return []


# ---------------------------------------------------------------------------------------------------------------- semantics
def bv(v, w=W):
    return z3.BitVecVal(v, w)

def absv(v):
    return z3.If(v < 0, -v, v)

def size_of(v):
    a = absv(v)
    n = z3.If(a == 0, bv(0, 32), z3.If(z3.ULT(a, bv(1 << 64)), bv(1, 32), z3.If(z3.ULT(a, bv(1 << 128)), bv(2, 32), z3.If(z3.ULT(a, bv(1 << 192)), bv(3, 32), bv(4, 32)))))
    return z3.If(v < 0, -n, n)

UF = {}
def uf(name, nin, wout=W, win=W):
    k = (name, nin, wout, win)
    if k not in UF:
        UF[k] = z3.Function(name, *([z3.BitVecSort(win)] * nin + [z3.BitVecSort(wout)]))
    return UF[k]

def MUL(x, y):
    lo = z3.If(x <= y, x, y); hi = z3.If(x <= y, y, x)
    return uf("mpz_mul", 2)(lo, hi)

# unsigned division core: one uninterpreted function family for the C functions *and* for the machine udiv/sdiv/urem/srem
# instructions of the IR (so that fast paths which divide built-in operands meet the reference by congruence; real divider
# circuits on both sides were measured not to finish), with the facts q = 0 / r = x for x < y and q <= x, r < y
def UDIVQ(x, y):
    q = uf("mpz_udivq", 2)(x, y)
    return z3.If(z3.ULT(x, y), bv(0), z3.If(x == y, bv(1), z3.If(z3.ULE(q, x), q, x)))

def UDIVR(x, y):
    r = uf("mpz_udivr", 2)(x, y)
    return z3.If(z3.ULT(x, y), x, z3.If(x == y, bv(0), z3.If(z3.ULT(r, y), r, bv(0))))

def TDIVQ(n, d):
    q = UDIVQ(absv(n), absv(d))
    return z3.If((n < 0) != (d < 0), -q, q)

def TDIVR(n, d):
    r = UDIVR(absv(n), absv(d))
    return z3.If(n < 0, -r, r)

def QOP(name, comm, x, y):
    """mpq binary operation as a pair of uninterpreted functions of the four components"""
    args = list(x) + list(y)
    if comm:
        sw = z3.Or(x[0] < y[0], z3.And(x[0] == y[0], x[1] <= y[1]))
        args = [z3.If(sw, x[0], y[0]), z3.If(sw, x[1], y[1]), z3.If(sw, y[0], x[0]), z3.If(sw, y[1], x[1])]
    return (uf(name + "_num", 4)(*args), uf(name + "_den", 4)(*args))

def sx(v, frm):
    return z3.SignExt(W - frm, v)

def zx(v, frm):
    return z3.ZeroExt(W - frm, v)


# reference evaluation of the expression tree (every node into its own temporary)
def ref_eval(e, env, divs):
    """-> ('z', bv) | ('q', (n, d)) | ('l', bv64) | ('u', bv64)"""
    k = e[0]
    if k == "leaf":
        return env[e[1]]
    if k in ("un", "fn1"):
        x = ref_eval(e[2], env, divs)
        op = e[1]
        if x[0] in ("l", "u"):
            raise Unsupported("unary on builtin")
        if x[0] == "z":
            if op == "-": return ("z", -x[1])
            if op == "abs": return ("z", absv(x[1]))
            if op == "~": return ("z", ~x[1])
        if x[0] == "q":
            if op == "-": return ("q", (-x[1][0], x[1][1]))
            if op == "abs": return ("q", (absv(x[1][0]), x[1][1]))
        raise Unsupported("unary " + op)
    if k == "bin":
        x = ref_eval(e[2], env, divs); y = ref_eval(e[3], env, divs)
        return ref_bin(e[1], x, y, divs)
    raise Unsupported("expr kind " + k)

def to_z(x):
    if x[0] == "z": return x[1]
    if x[0] == "l": return sx(x[1], 64)
    if x[0] == "u": return zx(x[1], 64)
    raise Unsupported("to_z")

def to_q(x):
    if x[0] == "q": return x[1]
    return (to_z(x), bv(1))

def ref_bin(op, x, y, divs):
    if x[0] == "q" or y[0] == "q":
        a, b = to_q(x), to_q(y)
        if op == "+": return ("q", QOP("mpq_add", True, a, b))
        if op == "-": return ("q", QOP("mpq_sub", False, a, b))
        if op == "*": return ("q", QOP("mpq_mul", True, a, b))
        if op == "/":
            divs.append(b[0] != 0)
            return ("q", QOP("mpq_div", False, a, b))
        raise Unsupported("mpq op " + op)
    a, b = to_z(x), to_z(y)
    if op == "+": return ("z", a + b)
    if op == "-": return ("z", a - b)
    if op == "*": return ("z", MUL(a, b))
    if op == "/":
        divs.append(b != 0); return ("z", TDIVQ(a, b))
    if op == "%":
        divs.append(b != 0); return ("z", TDIVR(a, b))
    if op == "&": return ("z", a & b)
    if op == "|": return ("z", a | b)
    if op == "^": return ("z", a ^ b)
    raise Unsupported("op " + op)


# ---------------------------------------------------------------------------------------------------------------- executor
class Cell:
    __slots__ = ("v", "live", "name")
    def __init__(self, v, live, name):
        self.v, self.live, self.name = v, live, name

class Path:
    def __init__(self):
        self.regs, self.cells, self.pc, self.obls = {}, {}, [], []
        self.block, self.prev, self.ip = None, None, 0
        self.errors = []
    def fork(self):
        p = Path()
        p.regs = dict(self.regs); p.pc = list(self.pc); p.obls = list(self.obls); p.errors = list(self.errors)
        p.cells = {k: Cell(c.v, c.live, c.name) for k, c in self.cells.items()}
        p.block, p.prev, p.ip = self.block, self.prev, self.ip
        return p

FRESH = [0]
import os
DUMP = os.environ.get('IR2SMT_DUMP')
def fresh(w, tag="f"):
    FRESH[0] += 1
    return z3.BitVec("%s%d" % (tag, FRESH[0]), w)


class Func:
    def __init__(self, name, header, body, types):
        self.name, self.types = name, types
        m = re.search(r"@%s\((.*)\)\s*(local_unnamed_addr|#|\{|unnamed_addr|personality)" % re.escape(name), header)
        ps = Types._split(m.group(1))
        self.params = []
        for i, p in enumerate(ps):
            ty = p.split()[0]
            self.params.append(ty)
        self.blocks, self.order = {}, []
        cur = "%%%d" % len(self.params)
        self.entry = cur
        self.blocks[cur] = []
        for ln in body:
            m = re.match(r"^([\w.]+):", ln)
            if m:
                cur = "%" + m.group(1); self.blocks[cur] = []; continue
            s = ln.strip()
            if not s or s.startswith(";"):
                continue
            # continuation lines of invoke ("to label ... unwind label ...") and landingpad clauses
            if s.startswith("to label") or s.startswith("catch") or s.startswith("cleanup") or s.startswith("filter"):
                self.blocks[cur][-1] += " " + s
            else:
                self.blocks[cur].append(s)


def parse_module(text):
    types = Types(text)
    funcs = {}
    lines = text.split("\n")
    i = 0
    while i < len(lines):
        m = re.match(r"^define .*@(w\d+)\(", lines[i])
        if m:
            j = i + 1
            while lines[j] != "}":
                j += 1
            funcs[m.group(1)] = (lines[i], lines[i + 1:j])
            i = j
        i += 1
    return types, funcs


class Exec:
    def __init__(self, types, fn, objmap, kinds):
        """objmap: param index -> object id (aliased params share an id); kinds: param index -> 'z'|'q'|'l'|'u'"""
        self.T, self.fn, self.objmap, self.kinds = types, fn, objmap, kinds
        self.done, self.nalloca = [], 0

    def val(self, p, ty, tok):
        tok = tok.strip()
        if tok.startswith("%"):
            if tok not in p.regs:
                raise Unsupported("undefined register " + tok)
            return p.regs[tok]
        t = self.T.parse(ty)
        if t[0] == "int":
            if tok in ("true", "false"):
                return bv(1 if tok == "true" else 0, 1)
            if tok in ("undef", "poison"):
                return fresh(t[1], "undef")
            return bv(int(tok), t[1])
        if t[0] == "ptr":
            if tok == "null":
                return ("null",)
        raise Unsupported("operand %s %s" % (ty, tok))

    def cell_at(self, p, ptr, write=False):
        if not isinstance(ptr, tuple) or ptr[0] != "ptr":
            raise Unsupported("non-object pointer")
        k = (ptr[1], ptr[2])
        if k not in p.cells:
            raise Unsupported("pointer does not address an __mpz_struct: %r" % (k,))
        return p.cells[k]

    # ---- calls
    def call(self, p, name, args):
        """args: list of evaluated values; returns value or None"""
        C = lambda i: self.cell_at(p, args[i])
        def live(*cs):
            for c in cs:
                if not c.live:
                    p.errors.append("use of an uninitialised or cleared temporary (%s) in %s" % (c.name, name))
        if name == "__gmpz_init":
            c = C(0)
            if c.live: p.errors.append("temporary initialised twice (%s)" % c.name)
            c.live, c.v = True, bv(0); return None
        if name == "__gmpz_clear":
            c = C(0)
            if not c.live: p.errors.append("temporary cleared twice or never initialised (%s)" % c.name)
            c.live = False; return None
        if name in ("__gmpq_init", "__gmpq_clear"):
            n = C(0); d = self.cell_at(p, ("ptr", args[0][1], args[0][2] + 16))
            for c in (n, d):
                if name.endswith("init"):
                    if c.live: p.errors.append("temporary initialised twice (%s)" % c.name)
                    c.live = True
                else:
                    if not c.live: p.errors.append("temporary cleared twice (%s)" % c.name)
                    c.live = False
            if name.endswith("init"):
                n.v, d.v = bv(0), bv(1)
            return None
        if name.startswith("__gmpq_"):
            def Q(i):
                n = self.cell_at(p, args[i]); d = self.cell_at(p, ("ptr", args[i][1], args[i][2] + 16)); live(n, d); return n, d
            dn, dd = Q(0)
            op = name[7:]
            if op == "set":
                sn, sd = Q(1); dn.v, dd.v = sn.v, sd.v; return None
            if op == "set_z":
                s = C(1); live(s); dn.v, dd.v = s.v, bv(1); return None
            if op in ("set_si", "set_ui"):
                dn.v = sx(args[1], 64) if op == "set_si" else zx(args[1], 64); dd.v = zx(args[2], 64); return None
            if op in ("add", "sub", "mul", "div"):
                xn, xd = Q(1); yn, yd = Q(2)
                r = QOP("mpq_" + op, op in ("add", "mul"), (xn.v, xd.v), (yn.v, yd.v))
                dn.v, dd.v = r; return None
            if op in ("neg", "abs", "inv"):
                xn, xd = Q(1)
                if op == "neg": dn.v, dd.v = -xn.v, xd.v
                elif op == "abs": dn.v, dd.v = absv(xn.v), xd.v
                else:
                    r = (uf("mpq_inv_num", 2)(xn.v, xd.v), uf("mpq_inv_den", 2)(xn.v, xd.v)); dn.v, dd.v = r
                return None
            if op == "canonicalize":
                r = (uf("mpq_canon_num", 2)(dn.v, dd.v), uf("mpq_canon_den", 2)(dn.v, dd.v)); dn.v, dd.v = r; return None
            raise Unsupported("call " + name)
        op = name[7:] if name.startswith("__gmpz_") else None
        if op is None:
            raise Unsupported("call " + name)
        if op in ("set", "neg", "abs", "com", "sqrt"):
            d, s = C(0), C(1); live(d, s)
            d.v = {"set": s.v, "neg": -s.v, "abs": absv(s.v), "com": ~s.v, "sqrt": uf("mpz_sqrt", 1)(s.v)}[op]; return None
        if op in ("set_ui", "set_si"):
            d = C(0); live(d); d.v = zx(args[1], 64) if op == "set_ui" else sx(args[1], 64); return None
        if op in ("init_set", "init_set_ui", "init_set_si"):
            d = C(0)
            if d.live: p.errors.append("temporary initialised twice (%s)" % d.name)
            d.live = True
            d.v = self.cell_at(p, args[1]).v if op == "init_set" else (zx(args[1], 64) if op.endswith("ui") else sx(args[1], 64)); return None
        if op in ("add", "sub", "mul", "tdiv_q", "tdiv_r", "and", "ior", "xor", "addmul", "submul", "gcd", "lcm"):
            d, x, y = C(0), C(1), C(2); live(d, x, y)
            a, b = x.v, y.v
            d.v = {"add": lambda: a + b, "sub": lambda: a - b, "mul": lambda: MUL(a, b), "tdiv_q": lambda: TDIVQ(a, b), "tdiv_r": lambda: TDIVR(a, b),
                   "and": lambda: a & b, "ior": lambda: a | b, "xor": lambda: a ^ b, "addmul": lambda: d.v + MUL(a, b), "submul": lambda: d.v - MUL(a, b),
                   "gcd": lambda: uf("mpz_gcd", 2)(z3.If(a <= b, a, b), z3.If(a <= b, b, a)), "lcm": lambda: uf("mpz_lcm", 2)(z3.If(a <= b, a, b), z3.If(a <= b, b, a))}[op]()
            return None
        if op in ("add_ui", "sub_ui", "mul_ui", "mul_si", "addmul_ui", "submul_ui", "tdiv_q_ui", "tdiv_r_ui", "fdiv_q_ui", "cdiv_q_ui"):
            d, x = C(0), C(1); live(d, x)
            a = x.v; u = sx(args[2], 64) if op == "mul_si" else zx(args[2], 64)
            ret = None
            if op == "add_ui": d.v = a + u
            elif op == "sub_ui": d.v = a - u
            elif op in ("mul_ui", "mul_si"): d.v = MUL(a, u)
            elif op == "addmul_ui": d.v = d.v + MUL(a, u)
            elif op == "submul_ui": d.v = d.v - MUL(a, u)
            elif op == "tdiv_q_ui": d.v = TDIVQ(a, u); ret = z3.Extract(63, 0, UDIVR(absv(a), u))
            elif op == "tdiv_r_ui": d.v = TDIVR(a, u); ret = z3.Extract(63, 0, UDIVR(absv(a), u))
            else: raise Unsupported("call " + name)
            return ret
        if op == "ui_sub":
            d, y = C(0), C(2); live(d, y); d.v = zx(args[1], 64) - y.v; return None
        if op in ("fits_si_p", "fits_ui_p", "fits_slong_p", "fits_ulong_p"):
            x = C(0); live(x)
            ok = z3.And(x.v >= bv(-(1 << 63)), x.v <= bv((1 << 63) - 1)) if "si" in op or "slong" in op else z3.And(x.v >= 0, x.v <= bv((1 << 64) - 1))
            return z3.If(ok, bv(1, 32), bv(0, 32))
        if op in ("get_si", "get_ui"):
            x = C(0); live(x)
            if op == "get_ui":
                return z3.Extract(63, 0, absv(x.v))
            fits = z3.And(x.v >= bv(-(1 << 63)), x.v <= bv((1 << 63) - 1))
            return z3.If(fits, z3.Extract(63, 0, x.v), fresh(64, "getsi"))
        if op in ("cmp", "cmpabs"):
            x, y = C(0), C(1); live(x, y)
            a, b = (x.v, y.v) if op == "cmp" else (absv(x.v), absv(y.v))
            return z3.If(a > b, bv(1, 32), z3.If(a == b, bv(0, 32), bv(-1, 32)))
        if op in ("cmp_ui", "cmp_si", "cmpabs_ui"):
            x = C(0); live(x)
            a = absv(x.v) if op == "cmpabs_ui" else x.v
            b = sx(args[1], 64) if op == "cmp_si" else zx(args[1], 64)
            return z3.If(a > b, bv(1, 32), z3.If(a == b, bv(0, 32), bv(-1, 32)))
        if op in ("mul_2exp", "fdiv_q_2exp", "tdiv_q_2exp"):
            d, x = C(0), C(1); live(d, x)
            sh = zx(args[2], 64)
            d.v = (x.v << sh) if op == "mul_2exp" else (x.v >> sh if op == "fdiv_q_2exp" else z3.If(x.v < 0, -((-x.v) >> sh), x.v >> sh)); return None
        raise Unsupported("call " + name)

    # ---- memory
    def load(self, p, ty, ptr):
        t = self.T.parse(ty)
        if isinstance(ptr, tuple) and ptr[0] == "limbs":
            c = p.cells[ptr[1]]
            if t != ("int", 64) or ptr[2] % 8:
                raise Unsupported("limb load type")
            k = ptr[2] // 8
            if k > 3:
                raise Unsupported("limb index")
            return z3.Extract(64 * k + 63, 64 * k, absv(c.v))
        if isinstance(ptr, tuple) and ptr[0] == "ptr":
            base = ptr[2] - ptr[2] % 16
            k = (ptr[1], base)
            if k in p.cells:
                c, f = p.cells[k], ptr[2] % 16
                if f == 4 and t == ("int", 32):
                    return size_of(c.v)
                if f == 0 and t == ("int", 32):
                    return fresh(32, "alloc")
                if f == 8 and t[0] == "ptr":
                    return ("limbs", k, 0)
            raise Unsupported("load from %r" % (ptr,))
        raise Unsupported("load pointer")

    def store(self, p, ty, val, ptr):
        t = self.T.parse(ty)
        if isinstance(ptr, tuple) and ptr[0] == "ptr":
            base = ptr[2] - ptr[2] % 16
            k = (ptr[1], base)
            if k in p.cells and ptr[2] % 16 == 4 and t == ("int", 32):
                c = p.cells[k]
                s = size_of(c.v)
                # inline mpz_neg / mpz_abs: only the sign may change through _mp_size
                if z3.is_true(z3.simplify(val == -s)):
                    c.v = -c.v; return
                if z3.is_true(z3.simplify(val == z3.If(s < 0, -s, s))):
                    c.v = absv(c.v); return
                if z3.is_true(z3.simplify(val == s)):
                    return
                p.obls.append(z3.Or(val == s, val == -s))
                c.v = z3.If(val == s, c.v, -c.v)
                return
        raise Unsupported("store to %r" % (ptr,))

    def gep(self, p, srcty, ptr, idx):
        """idx: list of (type, value)"""
        if isinstance(ptr, tuple) and ptr[0] == "limbs":
            if len(idx) != 1:
                raise Unsupported("gep limbs")
            v = idx[0]
            if not z3.is_bv_value(v):
                raise Unsupported("symbolic limb index")
            return ("limbs", ptr[1], ptr[2] + 8 * v.as_signed_long())
        if not (isinstance(ptr, tuple) and ptr[0] == "ptr"):
            raise Unsupported("gep base")
        off, ty = ptr[2], srcty
        for n, v in enumerate(idx):
            if not z3.is_bv_value(v):
                raise Unsupported("symbolic gep index")
            i = v.as_signed_long()
            if n == 0:
                sz, _ = self.T.size_align(ty); off += i * sz; continue
            t = self.T.parse(ty)
            if t[0] == "arr":
                sz, _ = self.T.size_align(t[2]); off += i * sz; ty = t[2]
            elif t[0] == "struct":
                o, f = self.T.field_off(ty if not ty.startswith("%") else self.T.named[ty], i); off += o; ty = f
            else:
                raise Unsupported("gep into " + ty)
        return ("ptr", ptr[1], off)

    # ---- run
    def run(self, init_cells, regs, maxpaths=256, maxsteps=4000):
        p0 = Path(); p0.regs = dict(regs)
        p0.cells = {k: Cell(c.v, c.live, c.name) for k, c in init_cells.items()}
        p0.block, p0.ip = self.fn.entry, 0
        work = [p0]
        steps = 0
        while work:
            p = work.pop()
            while True:
                steps += 1
                if steps > maxsteps or len(self.done) + len(work) > maxpaths:
                    raise Unsupported("path/step bound exceeded")
                ins = self.fn.blocks[p.block][p.ip]
                p.ip += 1
                r = self.step(p, ins, work)
                if r == "end":
                    break
        return self.done

    def jump(self, p, label):
        p.prev, p.block, p.ip = p.block, label, 0

    def step(self, p, ins, work):
        T = self.T
        dst = None
        m = re.match(r"^(%[\w.]+) = (.*)$", ins)
        if m:
            dst, ins = m.group(1), m.group(2)
        op = ins.split()[0]
        if op == "ret":
            self.done.append(p); return "end"
        if op == "unreachable" or op == "resume":
            return "end"
        if op == "br":
            m = re.match(r"br label (%[\w.]+)", ins)
            if m:
                self.jump(p, m.group(1)); return
            m = re.match(r"br i1 (\S+), label (%[\w.]+), label (%[\w.]+)", ins)
            c = self.val(p, "i1", m.group(1))
            c = z3.simplify(c)
            if z3.is_bv_value(c):
                self.jump(p, m.group(2) if c.as_long() else m.group(3)); return
            q = p.fork()
            p.pc.append(c == 1); self.jump(p, m.group(2))
            q.pc.append(c == 0); self.jump(q, m.group(3)); work.append(q)
            return
        if op == "switch":
            raise Unsupported("switch")
        if op == "alloca":
            m = re.match(r"alloca (.*?)(, align \d+)?$", ins)
            ty = m.group(1)
            self.nalloca += 1
            oid = "t%d" % self.nalloca
            for o in T.mpz_offsets(ty):
                p.cells[(oid, o)] = Cell(fresh(W, "junk"), False, "%s+%d" % (dst, o))
            p.regs[dst] = ("ptr", oid, 0); return
        if op == "bitcast":
            m = re.match(r"bitcast (.*?) (%[\w.]+|null) to (.*)$", ins)
            p.regs[dst] = self.val(p, m.group(1), m.group(2)); return
        if op == "getelementptr":
            m = re.match(r"getelementptr (inbounds )?(.*)$", ins)
            parts = Types._split(m.group(2))
            srcty = parts[0]
            pty, ptok = parts[1].rsplit(" ", 1)
            base = self.val(p, pty, ptok)
            idx = []
            for a in parts[2:]:
                ity, itok = a.rsplit(" ", 1)
                idx.append(self.val(p, ity, itok))
            p.regs[dst] = self.gep(p, srcty, base, idx); return
        if op == "load":
            m = re.match(r"load (.*?), (.*?) (%[\w.]+)(,.*)?$", ins)
            p.regs[dst] = self.load(p, m.group(1), self.val(p, m.group(2), m.group(3))); return
        if op == "store":
            m = re.match(r"store (.*?) (\S+), (.*?) (%[\w.]+)(,.*)?$", ins)
            self.store(p, m.group(1), self.val(p, m.group(1), m.group(2)), self.val(p, m.group(3), m.group(4))); return
        if op in ("call", "invoke", "tail", "musttail", "notail"):
            m = re.search(r"(?:call|invoke) (.*?)@([\w.$]+)\((.*)\)(?: #\d+)?(?:\s+to label (%[\w.]+) unwind label (%[\w.]+))?", ins)
            if not m:
                raise Unsupported("call syntax: " + ins[:80])
            name, argtext, normal = m.group(2), m.group(3), m.group(4)
            if name.startswith("llvm.abs."):
                a0 = Types._split(argtext)[0].split()
                x = self.val(p, a0[0], a0[-1]); p.regs[dst] = z3.If(x < 0, -x, x)
                if normal: self.jump(p, normal)
                return
            if name.startswith("llvm.lifetime") or name.startswith("llvm.assume") or name.startswith("llvm.dbg") or name.startswith("llvm.experimental.noalias"):
                return
            args = []
            for a in Types._split(argtext):
                toks = a.split()
                ty = toks[0]
                if ty == "metadata":
                    continue
                args.append(self.val(p, ty, toks[-1]))
            r = self.call(p, name, args)
            if dst:
                if r is None:
                    raise Unsupported("result of %s used" % name)
                p.regs[dst] = r
            if normal:
                self.jump(p, normal)
            return
        if op == "icmp":
            m = re.match(r"icmp (\w+) (.*?) (\S+), (\S+)$", ins)
            cc, ty = m.group(1), m.group(2)
            a, b = self.val(p, ty, m.group(3)), self.val(p, ty, m.group(4))
            if isinstance(a, tuple) or isinstance(b, tuple):
                if cc not in ("eq", "ne"):
                    raise Unsupported("pointer order compare")
                same = (a == b)
                p.regs[dst] = bv(1 if (same == (cc == "eq")) else 0, 1); return
            f = {"eq": lambda: a == b, "ne": lambda: a != b, "slt": lambda: a < b, "sle": lambda: a <= b, "sgt": lambda: a > b, "sge": lambda: a >= b,
                 "ult": lambda: z3.ULT(a, b), "ule": lambda: z3.ULE(a, b), "ugt": lambda: z3.UGT(a, b), "uge": lambda: z3.UGE(a, b)}[cc]()
            p.regs[dst] = z3.If(f, bv(1, 1), bv(0, 1)); return
        if op in ("add", "sub", "mul", "and", "or", "xor", "shl", "lshr", "ashr", "udiv", "sdiv", "urem", "srem"):
            m = re.match(r"\w+ (?:nsw |nuw |exact )*(\S+) (\S+), (\S+)$", ins)
            ty = m.group(1)
            a, b = self.val(p, ty, m.group(2)), self.val(p, ty, m.group(3))
            if op in ("udiv", "sdiv", "urem", "srem"):
                p.obls_div = getattr(p, "obls_div", []) + [b != 0]
            p.regs[dst] = {"add": lambda: a + b, "sub": lambda: a - b, "mul": lambda: a * b, "and": lambda: a & b, "or": lambda: a | b, "xor": lambda: a ^ b,
                           "shl": lambda: a << b, "lshr": lambda: z3.LShR(a, b), "ashr": lambda: a >> b, "udiv": lambda: z3.Extract(a.size() - 1, 0, UDIVQ(zx(a, a.size()), zx(b, b.size()))), "sdiv": lambda: z3.Extract(a.size() - 1, 0, TDIVQ(sx(a, a.size()), sx(b, b.size()))),
                           "urem": lambda: z3.Extract(a.size() - 1, 0, UDIVR(zx(a, a.size()), zx(b, b.size()))), "srem": lambda: z3.Extract(a.size() - 1, 0, TDIVR(sx(a, a.size()), sx(b, b.size())))}[op]()
            return
        if op in ("sext", "zext", "trunc"):
            m = re.match(r"\w+ (\S+) (\S+) to (\S+)$", ins)
            a = self.val(p, m.group(1), m.group(2))
            wf, wt = T.parse(m.group(1))[1], T.parse(m.group(3))[1]
            p.regs[dst] = z3.SignExt(wt - wf, a) if op == "sext" else (z3.ZeroExt(wt - wf, a) if op == "zext" else z3.Extract(wt - 1, 0, a)); return
        if op == "select":
            m = re.match(r"select i1 (\S+), (.*?) (\S+), (.*?) (\S+)$", ins)
            c = self.val(p, "i1", m.group(1))
            a, b = self.val(p, m.group(2), m.group(3)), self.val(p, m.group(4), m.group(5))
            if isinstance(a, tuple) or isinstance(b, tuple):
                c = z3.simplify(c)
                if not z3.is_bv_value(c):
                    raise Unsupported("symbolic pointer select")
                p.regs[dst] = a if c.as_long() else b; return
            p.regs[dst] = z3.If(c == 1, a, b); return
        if op == "phi":
            m = re.match(r"phi (.*?) (\[.*)$", ins)
            ty = m.group(1)
            for vm in re.finditer(r"\[ (\S+), (%[\w.]+) \]", m.group(2)):
                if vm.group(2) == p.prev:
                    p.regs[dst] = self.val(p, ty, vm.group(1)); return
            raise Unsupported("phi without matching predecessor")
        if op in ("landingpad", "extractvalue", "insertvalue"):
            p.regs[dst] = fresh(64, "lp"); return
        if op == "freeze":
            m = re.match(r"freeze (\S+) (\S+)$", ins)
            p.regs[dst] = self.val(p, m.group(1), m.group(2)); return
        raise Unsupported("instruction " + op)


# ---------------------------------------------------------------------------------------------------------------- driver
def partitions(xs):
    if not xs:
        yield []
        return
    first, rest = xs[0], xs[1:]
    for part in partitions(rest):
        for i in range(len(part)):
            yield part[:i] + [[first] + part[i]] + part[i + 1:]
        yield [[first]] + part

PNAMES = ["a", "b", "c", "q", "r", "s", "l", "u"]
PKIND = {"a": "z", "b": "z", "c": "z", "q": "q", "r": "q", "s": "q", "l": "l", "u": "u"}

def leaves(e):
    if e[0] == "leaf":
        return [e[1]]
    return sum([leaves(x) for x in e[2:] if isinstance(x, (tuple, list))], [])

def check_program(types, fsrc, idx, prog, timeout_ms):
    kind, tgt, asg, e = prog
    e = tuplify(e)
    used = sorted(set(leaves(e) + [tgt]))
    zs = [x for x in used if PKIND[x] == "z"]; qs = [x for x in used if PKIND[x] == "q"]
    res = []
    fn = Func("w%d" % idx, fsrc[0], fsrc[1], types)
    for pz in partitions(zs):
        for pq in partitions(qs):
            t0 = time.time()
            name = "|".join("=".join(sorted(g)) for g in sorted(pz) + sorted(pq) if g) or "-"
            out = {"program": idx, "alias": name, "stmt": "%s %s %s" % (tgt, asg, show(e))}
            try:
                out.update(check_one(types, fn, prog, e, pz, pq, timeout_ms))
            except Unsupported as ex:
                out.update({"status": "unsupported", "detail": str(ex)})
            out["z3_s"] = round(time.time() - t0, 3)
            res.append(out)
    return res

def tuplify(e):
    return tuple(tuplify(x) if isinstance(x, list) else x for x in e)

def show(e):
    k = e[0]
    if k == "leaf": return e[1]
    if k == "un": return "(%s%s)" % (e[1], show(e[2]))
    if k == "bin": return "(%s %s %s)" % (show(e[2]), e[1], show(e[3]))
    if k == "fn1": return "%s(%s)" % (e[1], show(e[2]))
    return str(e)

def check_one(types, fn, prog, e, pz, pq, timeout_ms):
    kind, tgt, asg, _ = prog
    rep = {}
    for g in pz + pq:
        r = sorted(g)[0]
        for x in g:
            rep[x] = r
    # symbolic initial values per object (representative)
    init = {}
    env = {}
    bounds = []
    cells = {}
    regs = {}
    lim = bv(1 << INB)
    for i, nm in enumerate(PNAMES):
        k = PKIND[nm]
        if k in ("l", "u"):
            v = z3.BitVec("in_" + nm, 64); env[nm] = (k, v); regs["%%%d" % i] = v; continue
        r = rep.get(nm, nm)
        oid = "P" + r
        if k == "z":
            v = z3.BitVec("in_" + r, W)
            bounds.append(z3.And(v > -lim, v < lim))
            cells[(oid, 0)] = Cell(v, True, r); env[nm] = ("z", v)
        else:
            n, d = z3.BitVec("in_%s_num" % r, W), z3.BitVec("in_%s_den" % r, W)
            bounds += [z3.And(n > -lim, n < lim), z3.And(d > 0, d < lim), z3.Implies(n == 0, d == 1)]     # (canonical zero is 0/1)
            cells[(oid, 0)] = Cell(n, True, r + ".num"); cells[(oid, 16)] = Cell(d, True, r + ".den"); env[nm] = ("q", (n, d))
        regs["%%%d" % i] = ("ptr", oid, 0)
    divs = []
    rhs = ref_eval(e, env, divs)
    if asg != "=":
        rhs = ref_bin(asg[:-1], env[tgt], rhs, divs)
    if kind == "z":
        if rhs[0] == "q": raise Unsupported("mpq value assigned to mpz")
        want = ("z", to_z(rhs))
    else:
        want = ("q", to_q(rhs))
    ex = Exec(types, fn, None, None)
    paths = ex.run(cells, regs)
    toid = "P" + rep.get(tgt, tgt)
    nq = 0
    for p in paths:
        nq += 1
        errs = list(p.errors)
        for k, c in p.cells.items():
            if k[0].startswith("t") and c.live:
                errs.append("temporary %s not cleared on return" % c.name)
        good = []
        if want[0] == "z":
            good.append(p.cells[(toid, 0)].v == want[1])
        else:
            good.append(p.cells[(toid, 0)].v == want[1][0]); good.append(p.cells[(toid, 16)].v == want[1][1])
        for k, c in p.cells.items():
            if k[0].startswith("P") and k[0] != toid:
                good.append(c.v == cells[k].v)
        s = z3.Solver(); s.set("timeout", timeout_ms)
        s.add(*bounds); s.add(*divs); s.add(*p.pc)
        for d in getattr(p, "obls_div", []):
            pass
        if errs:
            # lifecycle error on a feasible path = violation irrespective of values
            r = s.check()
            if r == z3.sat:
                return {"status": "sat", "detail": "; ".join(errs[:3]), "model": model_vals(s.model()), "paths": len(paths), "queries": nq}
            if r == z3.unknown:
                return {"status": "unknown", "detail": "timeout on path feasibility", "paths": len(paths), "queries": nq}
            continue
        bad = [z3.Not(z3.And(*good))]
        if p.obls:
            bad.append(z3.Not(z3.And(*p.obls)))
        s.add(z3.Or(*bad))
        if DUMP:
            open(DUMP + ".%d.smt2" % nq, "w").write(s.to_smt2())
        txt0 = s.to_smt2()          # (taken before check(): afterwards z3 prints its preprocessed assertions, with the inputs renamed)
        r = s.check()
        if r == z3.unknown:
            # second solver: cvc5 decides in seconds several query shapes (UF congruence under 256-bit negation) that z3 does not
            cr, cm = cvc5_check(txt0, timeout_ms)
            if cr == "unsat":
                CVC5_WON[0] += 1
                continue
            if cr == "sat":
                return {"status": "sat", "detail": "target differs from the reference, or another object changed (cvc5 model)", "model": cm, "paths": len(paths), "queries": nq}
        if r == z3.sat:
            m = s.model()
            enc = p.obls and z3.is_false(m.eval(z3.And(*p.obls), model_completion=True))
            return {"status": "unsupported" if enc else "sat", "detail": "encoder assumption on _mp_size stores violated" if enc else "target differs from the reference, or another object changed", "model": model_vals(m), "paths": len(paths), "queries": nq}
        if r == z3.unknown:
            return {"status": "unknown", "detail": "z3 timeout", "paths": len(paths), "queries": nq}
    return {"status": "unsat", "paths": len(paths), "queries": nq, "cvc5_decided": CVC5_WON[0]}

CVC5_WON = [0]
def cvc5_check(txt, timeout_ms):
    import subprocess, tempfile
    names = sorted(set(re.findall(r"\bin_\w+\b", txt)))
    txt = "(set-logic QF_UFBV)\n(set-option :produce-models true)\n" + txt.replace("(check-sat)", "(check-sat)\n(get-value (%s))" % " ".join(names) if names else txt)
    f = tempfile.NamedTemporaryFile("w", suffix=".smt2", delete=False); f.write(txt); f.close()
    try:
        pr = subprocess.run(["cvc5", "--tlimit=%d" % (3 * timeout_ms), f.name], stdout=subprocess.PIPE, stderr=subprocess.PIPE, text=True, timeout=3 * timeout_ms / 1000 + 10)
        out = pr.stdout
        if os.environ.get("IR2SMT_DEBUG"): sys.stderr.write("CVC5: " + out[:200] + " ... names=" + str(names) + "\n")
    except Exception:
        out = ""
    finally:
        os.unlink(f.name)
    first = out.strip().split("\n")[0] if out.strip() else ""
    if first == "unsat":
        return "unsat", None
    if "(error" in out:
        return "unknown", None
    if first == "sat":
        m = {}
        for nm, val in re.findall(r"\((in_\w+) #b([01]+)\)", out):
            x = int(val, 2); w = len(val)
            if x >= 1 << (w - 1): x -= 1 << w
            m[nm[3:]] = str(x)
        for nm, val in re.findall(r"\((in_\w+) #x([0-9a-fA-F]+)\)", out):
            x = int(val, 16); w = 4 * len(val)
            if x >= 1 << (w - 1): x -= 1 << w
            m[nm[3:]] = str(x)
        return "sat", m
    return "unknown", None

def model_vals(m):
    out = {}
    for d in m.decls():
        if d.arity() == 0 and d.name().startswith("in_"):
            v = m[d]
            w = v.size()
            x = v.as_long()
            if x >= 1 << (w - 1):
                x -= 1 << w
            out[d.name()[3:]] = str(x)
    return out

def main():
    ll, pj, outp = sys.argv[1:4]
    progs = json.load(open(pj))
    lo = int(sys.argv[4]) if len(sys.argv) > 4 else 0
    hi = int(sys.argv[5]) if len(sys.argv) > 5 else len(progs)
    tmo = int(sys.argv[6]) if len(sys.argv) > 6 else 20000
    types, funcs = parse_module(open(ll).read())
    res = []
    for i in range(lo, min(hi, len(progs))):
        if "w%d" % i not in funcs:
            res.append({"program": i, "alias": "-", "status": "unsupported", "detail": "wrapper not in IR"}); continue
        try:
            res += check_program(types, funcs["w%d" % i], i, progs[i], tmo)
        except Unsupported as ex:
            res.append({"program": i, "alias": "-", "status": "unsupported", "detail": str(ex)})
        except Exception as ex:
            res.append({"program": i, "alias": "-", "status": "error", "detail": repr(ex)[:300]})
    json.dump(res, open(outp, "w"))

if __name__ == "__main__":
    main()
