#!/usr/bin/env python3
"""E2a: translate the GNU inline-asm macros of mpn/x86_64/longlong_inc.h into C with
ISA semantics, so that CBMC (which gives asm no semantics) sees what the CPU does.

The translation is regenerated from the tree's file on every run: each `__asm__ ("tmpl" :
outs : ins)` statement is replaced by a C block that (1) binds operands per the constraint
strings (matching-digit constraints, "a"/"d" register classes), (2) executes the template's
instructions one by one on 64-bit variables + CF, (3) writes the outputs back.

Instruction set: addq adcq subq sbbq mulq divq bsrq bsfq bswap (what the file uses, plus
nothing else: an unknown mnemonic raises, it is never silently dropped).

mode "exact": mulq = 64x64->128 product.   mode "uf": mulq = pair of uninterpreted
functions vf_uf_hi/vf_uf_lo (declared in vh.h) applied to the operands in sorted order.
divq asserts the #DE condition (high word < divisor) as a property.
"""
import re, sys


class AsmError(Exception):
    pass


def _split_top(s, sep):
    out, depth, cur, instr = [], 0, "", False
    i = 0
    while i < len(s):
        c = s[i]
        if instr:
            cur += c
            if c == "\\":
                cur += s[i + 1]
                i += 1
            elif c == '"':
                instr = False
        elif c == '"':
            instr = True
            cur += c
        elif c in "([{":
            depth += 1
            cur += c
        elif c in ")]}":
            depth -= 1
            cur += c
        elif c == sep and depth == 0:
            out.append(cur)
            cur = ""
        else:
            cur += c
        i += 1
    out.append(cur)
    return out


def _parse_operands(s):
    """ '"=r" (sh), "=&r" (sl)' -> [(constraint, expr), ...] """
    s = s.strip()
    if not s:
        return []
    res = []
    for part in _split_top(s, ","):
        part = part.strip()
        m = re.match(r'"([^"]*)"\s*\((.*)\)\s*$', part, re.S)
        if not m:
            raise AsmError("cannot parse operand: %r" % part)
        res.append((m.group(1), m.group(2).strip()))
    return res


def _opref(tok, nops):
    m = re.match(r"%q?(\d+)$", tok.strip())
    if not m:
        raise AsmError("unsupported asm operand %r" % tok)
    k = int(m.group(1))
    if k >= nops:
        raise AsmError("operand index out of range %r" % tok)
    return k


def translate_asm_stmt(template, outs, ins, mode, uid):
    ops = outs + ins
    n = len(ops)
    v = ["__vfo%d_%d" % (uid, k) for k in range(n)]
    cf = "__vfcf%d" % uid
    L = ["do { unsigned long %s; unsigned long %s = 0; (void)%s;" % (", ".join(v), cf, cf)]
    # bind: outputs start undefined (nondet would be more faithful; they are always written
    # or tied to an input by a matching constraint in this file -- checked below)
    rax = rdx = None
    alias = {}
    for k, (c, e) in enumerate(ops):
        cc = c.replace("=", "").replace("&", "").replace("%", "")
        if k >= len(outs) and re.fullmatch(r"\d+", cc):
            alias[k] = int(cc)
        if "a" == cc:
            rax = k
        if "d" == cc:
            rdx = k
    for k in range(len(outs)):
        L.append("%s = 0;" % v[k])
    for k in range(len(outs), n):
        c, e = ops[k]
        if k in alias:
            L.append("%s = (unsigned long)(%s);" % (v[alias[k]], e))
        else:
            L.append("%s = (unsigned long)(%s);" % (v[k], e))

    def ref(tok):
        k = _opref(tok, n)
        return v[alias.get(k, k)]

    for ins_ in re.split(r"\\n\\t|\\n|;", template):
        ins_ = ins_.strip()
        if not ins_:
            continue
        m = re.match(r"(\w+)\s*(.*)$", ins_)
        mn, args = m.group(1), [a.strip() for a in m.group(2).split(",") if a.strip()]
        if mn in ("addq", "adcq", "subq", "sbbq"):
            src, dst = ref(args[0]), ref(args[1])
            cin = cf if mn in ("adcq", "sbbq") else "0UL"
            t = "__vft%d" % uid
            if mn in ("addq", "adcq"):
                L.append("{ unsigned __int128 %s = (unsigned __int128)%s + %s + %s; %s = (unsigned long)%s; %s = (unsigned long)(%s >> 64); }"
                         % (t, dst, src, cin, dst, t, cf, t))
            else:
                L.append("{ unsigned __int128 %s = (unsigned __int128)%s - %s - %s; %s = (unsigned long)%s; %s = (unsigned long)(%s >> 64) & 1; }"
                         % (t, dst, src, cin, dst, t, cf, t))
        elif mn == "mulq":
            if rax is None or rdx is None:
                raise AsmError("mulq without a/d operands")
            src = ref(args[0])
            a, d = v[alias.get(rax, rax)], v[alias.get(rdx, rdx)]
            if mode == "uf":
                L.append("{ unsigned long __x = %s, __y = %s; %s = vf_uf_hi(__x, __y); %s = vf_uf_lo(__x, __y); }" % (a, src, d, a))
            else:
                L.append("{ unsigned __int128 __p = (unsigned __int128)%s * %s; %s = (unsigned long)__p; %s = (unsigned long)(__p >> 64); }"
                         % (a, src, a, d))
        elif mn == "divq":
            if rax is None or rdx is None:
                raise AsmError("divq without a/d operands")
            src = ref(args[0])
            a, d = v[alias.get(rax, rax)], v[alias.get(rdx, rdx)]
            L.append("{ VF_DIVQ_PRE(%s < %s); unsigned __int128 __n = ((unsigned __int128)%s << 64) | %s; unsigned long __dv = %s; "
                     "%s = (unsigned long)(__n / __dv); %s = (unsigned long)(__n %% __dv); }" % (d, src, d, a, src, a, d))
        elif mn == "bsrq":
            src, dst = ref(args[0]), ref(args[1])
            L.append("%s = vf_bsr(%s);" % (dst, src))
        elif mn == "bsfq":
            src, dst = ref(args[0]), ref(args[1])
            L.append("%s = vf_bsf(%s);" % (dst, src))
        elif mn == "bswap":
            dst = ref(args[0])
            L.append("%s = __builtin_bswap64(%s);" % (dst, dst))
        else:
            raise AsmError("unsupported inline-asm mnemonic %r" % mn)
    for k in range(len(outs)):
        L.append("(%s) = %s;" % (outs[k][1], v[k]))
    L.append("} while (0)")
    return " ".join(L)


def translate_file(text, mode="exact"):
    """Replace every __asm__(...) in the text; returns (new_text, n_translated)."""
    out, pos, uid = [], 0, 0
    while True:
        m = re.search(r"__asm__\s*\(", text[pos:])
        if not m:
            out.append(text[pos:])
            break
        start = pos + m.start()
        i = pos + m.end()
        depth, instr = 1, False
        while depth:
            c = text[i]
            if instr:
                if c == "\\" and text[i + 1] != "\n":
                    i += 1
                elif c == '"':
                    instr = False
            elif c == '"':
                instr = True
            elif c == "(":
                depth += 1
            elif c == ")":
                depth -= 1
            i += 1
        body = text[pos + m.end():i - 1]
        # strip line continuations and comments
        body = re.sub(r"/\*.*?\*/", " ", body, flags=re.S)
        body = body.replace("\\\n", " ")
        parts = _split_top(body, ":")
        tmpl = "".join(re.findall(r'"((?:[^"\\]|\\.)*)"', parts[0]))
        outs = _parse_operands(parts[1]) if len(parts) > 1 else []
        ins = _parse_operands(parts[2]) if len(parts) > 2 else []
        uid += 1
        c_code = translate_asm_stmt(tmpl, outs, ins, mode, uid)
        out.append(text[pos:start])
        # keep macro continuation structure: emit on one logical line
        out.append(c_code)
        pos = i
    return "".join(out), uid


if __name__ == "__main__":
    t, n = translate_file(open(sys.argv[1]).read(), sys.argv[2] if len(sys.argv) > 2 else "exact")
    sys.stdout.write(t)
    sys.stderr.write("translated %d asm statements\n" % n)
