#!/usr/bin/env python3
"""Core of the solver-based checking framework for wbhart/mpir (see /verif/DESIGN.md).

Flow of one check run (./check <ID> [--tier quick|thorough]):
  1. snapshot the *sources* of /repo's working tree into a scratch dir (outside /repo,/verif)
  2. generate overlay include dirs (config.h minus HAVE_ATTRIBUTE_MODE, mpir.h regenerated
     from gmp-h.in, longlong.h with the inline asm of mpn/x86_64/longlong_inc.h translated
     to C by lib/asm_inline.py, gmp-mparam.h variant)
  3. validate the encoding of the inline-asm macros against the real asm (native run)
  4. the property module yields Query objects (concrete shape + harness + real units)
  5. each query: goto-cc real units + harness -> cbmc (all properties, incl. the WITNESS
     assertion that must FAIL = harness reaches its end) ; on a real failed property re-run
     with --trace, extract the recorded nondet inputs, compile the same harness natively
     against the natively compiled real units and replay; only a reproduced failure is a
     VIOLATION
  6. evidence/<ID>.json is written from what actually ran
"""
import os, sys, re, json, time, shutil, subprocess, hashlib, threading, tempfile, atexit, glob
from concurrent.futures import ThreadPoolExecutor, as_completed

VERIF = os.path.dirname(os.path.dirname(os.path.abspath(__file__)))
REPO = os.environ.get("VERIF_REPO", "/repo")
sys.path.insert(0, os.path.join(VERIF, "lib"))
import asm_inline

NCPU = int(os.environ.get("VERIF_JOBS", "16"))
SRC_EXT = (".c", ".h", ".asm", ".as", ".m4", ".inc", ".in", ".fat", ".nofat", ".cc")

# CBMC 6 standard checks stay on (bounds, pointer, pointer-primitive, div-by-zero, signed
# overflow, undefined shift). --pointer-overflow-check is left off: its findings cannot be
# confirmed by any native replay (no sanitizer sees them), see DESIGN 2.7.
CBMC_FLAGS = ["--unwinding-assertions", "--drop-unused-functions", "--no-malloc-may-fail",
              "--sat-solver", "cadical"]


def log(*a):
    print(*a, flush=True)


def sh(cmd, cwd=None, timeout=None, env=None, inp=None, mem_gb=None):
    pre = None
    if mem_gb:
        import resource
        lim = int(mem_gb * (1 << 30))
        pre = lambda: resource.setrlimit(resource.RLIMIT_AS, (lim, lim))
    p = subprocess.run(cmd, cwd=cwd, timeout=timeout, env=env, input=inp, preexec_fn=pre,
                       stdout=subprocess.PIPE, stderr=subprocess.PIPE, text=True)
    return p.returncode, p.stdout, p.stderr


MEM_GB = float(os.environ.get("VERIF_MEM_GB", "3.5"))


class Infra(Exception):
    """Infrastructure failure: the check is broken, nothing it says can be trusted."""


# ----------------------------------------------------------------------------------------
class Ctx:
    """Per-run context: snapshot, overlays, goto-object cache, native-object cache."""

    def __init__(self, prop, tier, seed):
        self.prop, self.tier, self.seed = prop, tier, seed
        base = os.environ.get("VERIF_SCRATCH_BASE", "/var/tmp")
        self.scratch = tempfile.mkdtemp(prefix="verif.%s." % prop, dir=base)
        atexit.register(self.cleanup)
        self.snap = os.path.join(self.scratch, "snap")
        self.lock = threading.Lock()
        self.obj_cache = {}
        self.obj_locks = {}
        self.overlays = {}
        self.t0 = time.time()
        self.snapshot()

    def cleanup(self):
        if os.environ.get("VERIF_KEEP"):
            log("scratch kept:", self.scratch)
            return
        shutil.rmtree(self.scratch, ignore_errors=True)

    # -- snapshot -------------------------------------------------------------------------
    def snapshot(self):
        n = 0
        for root, dirs, files in os.walk(REPO):
            rel = os.path.relpath(root, REPO)
            if rel == ".":
                rel = ""
            dirs[:] = [d for d in dirs if d not in (".git", ".libs", "autom4te.cache", "build.vc", "build.vc10",
                                                    "build.vc11", "build.vc12", "build.vc14", "build.vc15", "mpir.net", "doc", "tune", "devel")
                       and not d.startswith("build.vc")]
            for f in files:
                if f.endswith(SRC_EXT) or f in ("config.m4",):
                    src = os.path.join(root, f)
                    if os.path.islink(src):
                        tgt = os.path.realpath(src)
                        if not os.path.exists(tgt):
                            continue
                    dst = os.path.join(self.snap, rel, f)
                    os.makedirs(os.path.dirname(dst), exist_ok=True)
                    shutil.copyfile(src, dst)
                    n += 1
        self.n_snap = n
        # the tree's own generated headers in the top directory would shadow the overlay for top-level units (a quoted
        # #include searches the including file's directory first): move them aside; the overlay is generated from these copies
        self.orig = os.path.join(self.snap, ".orig")
        os.makedirs(self.orig, exist_ok=True)
        for f in ("config.h", "longlong.h", "mpir.h", "gmp.h", "gmp-mparam.h", "gmp-impl.h"):
            fp = os.path.join(self.snap, f)
            if os.path.lexists(fp):
                shutil.move(fp, os.path.join(self.orig, f))
        # idiom rewrite (an encoding step like the inline-asm translation): "(char *) p - (char *) NULL" (address of p as an
        # integer, used only for "% sizeof (mp_limb_t)" alignment tests) is standard-level UB that makes CBMC give up on
        # everything after it; it is rewritten to the equivalent integer cast in the snapshot copy (native replays use the same copy)
        self.idiom_rewrites = []
        for rel in ("mpz/export.c", "mpz/import.c"):
            fp = os.path.join(self.snap, rel)
            if os.path.exists(fp):
                t = open(fp).read()
                t2, k = re.subn(r"\(\(char \*\) (\w+) - \(char \*\) NULL\)", r"((unsigned long) (\1))", t)
                if k:
                    open(fp, "w").write(t2)
                    self.idiom_rewrites.append("%s: %d x '(char *) p - (char *) NULL' -> '(unsigned long) p'" % (rel, k))
        # which implementation the pinned build links for each mpn routine (configure's
        # symlinks in mpn/): recorded so harnesses can name the real unit
        self.mpn_impl = {}
        for f in os.listdir(os.path.join(REPO, "mpn")):
            p = os.path.join(REPO, "mpn", f)
            if os.path.islink(p):
                self.mpn_impl[os.path.splitext(f)[0]] = os.path.relpath(os.path.realpath(p), REPO)

    # -- overlays -------------------------------------------------------------------------
    def overlay(self, variant="exact"):
        """variant: '+'-joined set of flags among
             exact|uf (mulq model), assert (WANT_ASSERT), reent|tmpdebug (TMP variant),
             mparam=<relpath or 'mini'>, native (no translation: for gcc builds)"""
        with self.lock:
            if variant in self.overlays:
                return self.overlays[variant]
            flags = variant.split("+")
            d = os.path.join(self.scratch, "ov_" + re.sub(r"[^A-Za-z0-9]", "_", variant))
            os.makedirs(d, exist_ok=True)
            native = "native" in flags
            cfg = open(os.path.join(self.orig, "config.h")).read()
            if not native:
                cfg = re.sub(r"#define HAVE_ATTRIBUTE_MODE 1", "/* verif: HAVE_ATTRIBUTE_MODE dropped (cbmc ignores mode(DI)) */", cfg)
            if "assert" in flags:
                cfg = re.sub(r"/\* #undef WANT_ASSERT \*/", "#define WANT_ASSERT 1", cfg)
                if "WANT_ASSERT 1" not in cfg:
                    cfg += "\n#define WANT_ASSERT 1\n"
            if "reent" in flags or "tmpdebug" in flags:
                cfg = re.sub(r"#define WANT_TMP_ALLOCA 1", "", cfg)
                cfg += "\n#define %s 1\n" % ("WANT_TMP_REENTRANT" if "reent" in flags else "WANT_TMP_DEBUG")
            open(os.path.join(d, "config.h"), "w").write(cfg)
            # mpir.h from gmp-h.in the way configure substitutes it
            gh = open(os.path.join(self.snap, "gmp-h.in")).read()
            for k, v in (("@BITS_PER_MP_LIMB@", "64"), ("@GMP_NAIL_BITS@", "0"),
                         ("@DEFN_LONG_LONG_LIMB@", "/* #undef _LONG_LONG_LIMB */"), ("@LIBGMP_DLL@", "0"),
                         ("@GMP_CC@", ""), ("@GMP_CFLAGS@", ""), ("@CC@", "gcc"), ("@CFLAGS@", " -Wno-error")):
                gh = gh.replace(k, v)
            open(os.path.join(d, "mpir.h"), "w").write(gh)
            shutil.copyfile(os.path.join(d, "mpir.h"), os.path.join(d, "gmp.h"))
            pre = open(os.path.join(self.snap, "longlong_pre.h")).read()
            inc = open(os.path.join(self.snap, "mpn/x86_64/longlong_inc.h")).read()
            post = open(os.path.join(self.snap, "longlong_post.h")).read()
            if not native:
                try:
                    inc, nasm = asm_inline.translate_file(inc, "uf" if ("uf" in flags or "ufc" in flags or "ufr" in flags) else "exact")
                except asm_inline.AsmError as e:
                    raise Infra("inline asm translation failed: %s" % e)
                inc = ('#define VF_UF_COMM 1\n' if "ufc" in flags else "") + ('#define VF_UF_RANGE 1\n' if "ufr" in flags else "") + '#include "vf_asm.h"\n' + inc
                self.n_inline_asm = nasm
            open(os.path.join(d, "longlong.h"), "w").write(pre + inc + post)
            shutil.copyfile(os.path.join(VERIF, "harness", "vf_asm.h"), os.path.join(d, "vf_asm.h"))
            mp = [f for f in flags if f.startswith("mparam=")]
            mpsrc = os.path.join(self.snap, "mpn/x86_64/gmp-mparam.h")
            if mp:
                val = mp[0][7:]
                if val == "mini":
                    mpsrc = os.path.join(VERIF, "harness", "mparam_mini.h")
                else:
                    mpsrc = os.path.join(self.snap, val)
            mptxt = open(mpsrc).read()
            for f in flags:         # thr:NAME=VALUE : one threshold of the tuning table overridden (any value the algorithm accepts is a valid configuration)
                if f.startswith("thr:"):
                    nm, _, val = f[4:].partition("=")
                    mptxt += "\n#undef %s\n#define %s %s\n" % (nm, nm, val)
            open(os.path.join(d, "gmp-mparam.h"), "w").write(mptxt)
            shutil.copyfile(os.path.join(self.orig, "gmp-impl.h"), os.path.join(d, "gmp-impl.h"))
            self.overlays[variant] = d
            return d

    def incs(self, variant):
        ov = self.overlay(variant)
        return ["-I" + ov, "-I" + os.path.join(VERIF, "harness"), "-I" + self.snap,
                "-I" + os.path.join(self.snap, "mpn"), "-I" + os.path.join(self.snap, "fft")]

    # -- compile one real unit to a goto object (cached) ------------------------------------
    def _key(self, *a):
        return hashlib.sha1(repr(a).encode()).hexdigest()[:16]

    def unit_obj(self, unit, variant, native=False, extra=()):
        """unit: path relative to the repo root, optionally 'path:OPERATION' ;
           returns object path"""
        path, _, op = unit.partition(":")
        if not op and path.startswith("mpn/"):
            op = os.path.splitext(os.path.basename(path))[0]
        key = self._key(path, op, variant, native, tuple(extra))
        with self.lock:
            lk = self.obj_locks.setdefault(key, threading.Lock())
        with lk:
            if key in self.obj_cache:
                return self.obj_cache[key]
            src = os.path.join(self.snap, path)
            if not os.path.exists(src):
                alt = os.path.join(VERIF, path)
                if os.path.exists(alt):
                    src = alt
                else:
                    raise Infra("unit not found in snapshot: %s" % path)
            out = os.path.join(self.scratch, "obj", ("n_" if native else "g_") + key + "_" + re.sub(r"[^A-Za-z0-9]", "_", path) + ".o")
            os.makedirs(os.path.dirname(out), exist_ok=True)
            v = variant
            if native:
                v = "+".join(["native"] + [f for f in variant.split("+") if f not in ("exact", "uf", "ufc", "ufr")])
            defs = ["-DHAVE_CONFIG_H", "-D__GMP_WITHIN_GMP"] + list(extra)
            if op:
                defs.append("-DOPERATION_" + op)
            if native:
                cmd = ["gcc", "-c", "-O1", "-g", "-w", "-fwrapv", "-fsanitize=address", "-fno-omit-frame-pointer"] + defs + self.incs(v) + [src, "-o", out]
            else:
                cmd = ["goto-cc", "-c", "-w", "-DVF_CBMC"] + defs + self.incs(v) + [src, "-o", out]
            rc, so, se = sh(cmd)
            if rc != 0:
                raise Infra("compile failed for %s (%s):\n%s" % (path, "native" if native else "goto", se[-3000:]))
            self.obj_cache[key] = out
            return out


# ----------------------------------------------------------------------------------------
class Query:
    ub_notes = ()

    def __init__(self, name, harness, units, defs=None, unwind=8, variant="exact", timeout=300,
                 funcs=None, domain="D-FULL", shape=None, stubs=None, extra_cbmc=None, unwindset=None,
                 unit_defs=None, objbits=None, no_unwind_assert=None, known_key=None, mem_gb=None, hunwind=None):
        self.mem_gb = mem_gb
        self.hunwind = hunwind      # separate (larger) bound for loops of the harness/oracle files; real-code loops keep `unwind`
        self.name, self.harness, self.units = name, harness, list(units)
        self.defs = dict(defs or {})
        self.unwind, self.variant, self.timeout = unwind, variant, timeout
        self.funcs = funcs or []
        self.domain = domain
        self.shape = shape or dict(self.defs)
        self.stubs = stubs or []
        self.extra_cbmc = extra_cbmc or []
        self.unwindset = unwindset or []
        self.unit_defs = list(unit_defs or [])
        self.objbits = objbits
        self.no_unwind_assert = no_unwind_assert or []
        # result fields
        self.status = None      # 'discharged' | 'violation' | 'unconfirmed' | 'inconclusive' | 'vacuous' | 'error'
        self.detail = ""
        self.solver_s = 0.0
        self.n_props = 0
        self.failed_props = []
        self.replay_path = None
        self.inputs = None


def _defflags(defs):
    out = []
    for k, v in defs.items():
        out.append("-D%s=%s" % (k, v) if v is not None and v != "" else "-D%s" % k)
    return out


def parse_cbmc_json(text):
    """returns (results list[{property,status,description}], messages)"""
    try:
        data = json.loads(text)
    except Exception:
        # sometimes trailing garbage; try to cut at last ']'
        k = text.rfind("]")
        data = json.loads(text[:k + 1])
    results, msgs, cprover_status = [], [], None
    for item in data:
        if "result" in item:
            results = item["result"]
        if "messageText" in item:
            msgs.append(item["messageText"])
        if "cProverStatus" in item:
            cprover_status = item["cProverStatus"]
    return results, msgs, cprover_status


def extract_inputs(results, prop_name=None):
    """From --trace JSON results: the last assignment to each VF_IN[k] in the trace of the first
    failed non-witness property."""
    for r in results:
        if r.get("status") != "FAILURE":
            continue
        if "WITNESS" in r.get("description", ""):
            continue
        tr = r.get("trace")
        if not tr:
            continue
        vals = {}
        cnt = 0
        for st in tr:
            if st.get("stepType") != "assignment":
                continue
            lhs = st.get("lhs", "")
            m = re.match(r"VF_IN\[(\d+)[a-zA-Z]*\]$", lhs)
            if m:
                v = st.get("value", {})
                d = v.get("data")
                if d is None and "binary" in v:
                    d = str(int(v["binary"], 2))
                try:
                    vals[int(m.group(1))] = int(str(d).rstrip("ulUL"))
                except Exception:
                    b = v.get("binary")
                    vals[int(m.group(1))] = int(b, 2) if b else 0
            elif lhs == "VF_INC":
                try:
                    cnt = int(str(st.get("value", {}).get("data", "0")).rstrip("ulUL"))
                except Exception:
                    pass
        n = max([cnt] + [k + 1 for k in vals])
        return r, [vals.get(k, 0) for k in range(n)]
    return None, None


class Runner:
    def __init__(self, ctx):
        self.ctx = ctx
        self.qdir = os.path.join(ctx.scratch, "q")
        os.makedirs(self.qdir, exist_ok=True)

    def _harness_src(self, q):
        p = q.harness if os.path.isabs(q.harness) else os.path.join(VERIF, "harness", q.harness)
        if not os.path.exists(p):
            raise Infra("harness missing: %s" % p)
        return p

    def build_goto(self, q, wd):
        objs = [self.ctx.unit_obj(u, q.variant, extra=q.unit_defs) for u in q.units]
        hobj = os.path.join(wd, "harness.o")
        cmd = ["goto-cc", "-c", "-w", "-DVF_CBMC", "-DHAVE_CONFIG_H", "-D__GMP_WITHIN_GMP"] + _defflags(q.defs) + self.ctx.incs(q.variant) + [self._harness_src(q), "-o", hobj]
        rc, so, se = sh(cmd)
        if rc:
            raise Infra("harness compile failed (%s):\n%s" % (q.name, se[-3000:]))
        binp = os.path.join(wd, "prog.gb")
        rc, so, se = sh(["goto-cc", hobj] + objs + ["-o", binp])
        if rc:
            raise Infra("goto link failed (%s):\n%s" % (q.name, se[-3000:]))
        return binp

    def harness_loops(self, q, binp):
        """loop ids located in /verif/harness files (oracle/harness code), via cbmc --show-loops"""
        rc, so, se = sh(["cbmc", binp, "--show-loops", "--json-ui"], timeout=120)
        ids = []
        try:
            for item in json.loads(so):
                for lp in item.get("loops", []) if isinstance(item, dict) else []:
                    f = lp.get("sourceLocation", {}).get("file", "")
                    if os.path.join(VERIF, "harness") in os.path.abspath(f) or f.startswith("harness/"):
                        ids.append(lp["name"])
        except Exception as e:
            raise Infra("show-loops failed: %r %s" % (e, se[-300:]))
        return ids

    def cbmc_cmd(self, q, binp, trace=False, prop=None):
        cmd = ["cbmc", binp, "--json-ui", "--unwind", str(q.unwind)] + CBMC_FLAGS + q.extra_cbmc
        if q.hunwind and not getattr(q, "_hloops", None):
            q._hloops = ["%s:%d" % (i, q.hunwind) for i in self.harness_loops(q, binp)]
        for u in getattr(q, "_hloops", None) or []:
            cmd += ["--unwindset", u]
        cmd += ["--unwindset", "__ctype_b_loc.0:130"]      # the ASCII classification table model in harness/vh.h
        for u in q.unwindset:
            cmd += ["--unwindset", u]
        if q.objbits:
            cmd += ["--object-bits", str(q.objbits)]
        if trace:
            cmd += ["--trace"]
        if prop:
            cmd += ["--property", prop]
        return cmd

    def run_query(self, q):
        t0 = time.time()
        wd = os.path.join(self.qdir, re.sub(r"[^A-Za-z0-9_.-]", "_", q.name))
        os.makedirs(wd, exist_ok=True)
        try:
            binp = self.build_goto(q, wd)
            cmd = self.cbmc_cmd(q, binp)
            q.cmd = " ".join(cmd[:2] + cmd[3:])
            try:
                rc, so, se = sh(["timeout", str(q.timeout)] + cmd, timeout=q.timeout + 30, mem_gb=q.mem_gb or MEM_GB)
            except subprocess.TimeoutExpired:
                rc, so, se = 124, "", ""
            q.solver_s = time.time() - t0
            if rc in (124, 137):
                q.status, q.detail = "inconclusive", "timeout %ds" % q.timeout
                return q
            if rc in (-9, -6, 134) or "bad_alloc" in se or "Out of memory" in so[-2000:] or "bad_alloc" in so[-2000:]:
                q.status, q.detail = "inconclusive", "memory limit %.1f GB (rc=%d)" % (q.mem_gb or MEM_GB, rc)
                return q
            try:
                results, msgs, st = parse_cbmc_json(so)
            except Exception as e:
                q.status, q.detail = "error", "unparsable cbmc output rc=%d: %s %s" % (rc, so[-500:], se[-500:])
                return q
            ubf = [r for r in results if r["status"] == "FAILURE" and (".overflow." in r["property"] or ".undefined-shift." in r["property"])]
            if ubf and any(r["status"] not in ("SUCCESS", "FAILURE") for r in results):
                # a failed undefined-behaviour check (e.g. the x >> (64-cnt) & mask idiom with cnt==0) makes CBMC
                # report everything after it UNKNOWN: note it, and decide the rest with those two UB checks off
                q.ub_notes = sorted(set("%s: %s" % (r["property"], r.get("description", "")) for r in ubf))
                cmd = cmd + ["--no-undefined-shift-check", "--no-signed-overflow-check"]
                q.extra_cbmc = q.extra_cbmc + ["--no-undefined-shift-check", "--no-signed-overflow-check"]
                try:
                    rc, so, se = sh(["timeout", str(q.timeout)] + cmd, timeout=q.timeout + 30, mem_gb=q.mem_gb or MEM_GB)
                except subprocess.TimeoutExpired:
                    rc = 124
                q.solver_s = time.time() - t0
                if rc in (124, 137):
                    q.status, q.detail = "inconclusive", "timeout %ds" % q.timeout
                    return q
                results, msgs, st = parse_cbmc_json(so)
            nobody = [m for m in msgs if "no body for" in m] + [r["property"] for r in results if "no-body" in r.get("property", "") and r.get("status") != "SUCCESS"]
            if nobody:
                q.status, q.detail = "error", "missing unit: " + "; ".join(sorted(set(nobody))[:8])
                return q
            if not results:
                q.status, q.detail = "error", "no results rc=%d: %s" % (rc, " | ".join(msgs[-6:]))
                return q
            q.n_props = len(results)
            wit = [r for r in results if "WITNESS" in r.get("description", "")]
            real_fail = [r for r in results if r["status"] == "FAILURE" and "WITNESS" not in r.get("description", "")]
            # arithmetic-overflow class (signed overflow in the real code): standard-level UB that gcc's
            # -fwrapv-like code generation does not expose; reported separately as UB-NOTE (DESIGN 2.7),
            # a wrong *value* would also fail a CHECK and is handled below
            ub = [r for r in real_fail if ".overflow." in r["property"] or ".undefined-shift." in r["property"]]
            q.ub_notes = sorted(set(list(q.ub_notes) + ["%s: %s" % (r["property"], r.get("description", "")) for r in ub]))
            real_fail = [r for r in real_fail if r not in ub]
            other = [r for r in results if r["status"] not in ("SUCCESS", "FAILURE")]
            if real_fail:
                # (a failed memory-safety check makes CBMC report later properties as UNKNOWN: the failure is what counts)
                q.failed_props = [(r["property"], r.get("description", "")) for r in real_fail]
                self.confirm(q, binp, wd, real_fail)
                return q
            if other:
                # cbmc gives ERROR/UNKNOWN statuses when it ran into the resource limit while deciding a property
                q.status, q.detail = "inconclusive", "cbmc status %s for %s (resource limit)" % (other[0]["status"], other[0]["property"])
                return q
            if not wit:
                q.status, q.detail = "error", "harness has no WITNESS assertion"
                return q
            if not any(r["status"] == "FAILURE" for r in wit):
                q.status, q.detail = "vacuous", "WITNESS assertion unreachable: harness never reaches its end"
                return q
            q.status = "discharged"
            return q
        except Infra as e:
            q.status, q.detail = "error", str(e)
            return q
        finally:
            q.wall_s = time.time() - t0
            if q.status in ("discharged",) and not os.environ.get("VERIF_KEEP"):
                shutil.rmtree(wd, ignore_errors=True)

    # -- counterexample confirmation -----------------------------------------------------------
    def confirm(self, q, binp, wd, real_fail):
        # prefer a value assertion over unwinding / pointer failures for the trace
        pick = sorted(real_fail, key=lambda r: (0 if r["property"].startswith("main.assertion") or "assertion" in r["property"] else 1))[0]
        cmd = self.cbmc_cmd(q, binp, trace=True, prop=pick["property"])
        try:
            rc, so, se = sh(["timeout", str(q.timeout * 2)] + cmd, timeout=q.timeout * 2 + 30, mem_gb=2 * (q.mem_gb or MEM_GB))
            results, msgs, st = parse_cbmc_json(so)
        except Exception as e:
            q.status, q.detail = "unconfirmed", "trace run failed: %s" % e
            return
        r, vals = extract_inputs(results)
        if r is None:
            q.status, q.detail = "unconfirmed", "no trace for %s" % pick["property"]
            return
        q.inputs = vals
        q.cex_prop = "%s: %s" % (r["property"], r.get("description", ""))
        ok, out = self.replay(q, wd, vals)
        q.replay_out = out[-2000:]
        if ok == "fail":
            q.status = "violation"
            q.detail = "%s ; replay: %s" % (q.cex_prop, out.strip().splitlines()[-1] if out.strip() else "")
        else:
            q.status = "unconfirmed"
            q.detail = "%s ; cbmc counterexample did not reproduce natively (%s): %s" % (q.cex_prop, ok, out.strip()[-300:])

    def replay(self, q, wd, vals, keep_dir=None):
        """compile the same harness natively (-DREPLAY) with the natively compiled real units and
        run it on the recorded nondet values. returns ('fail'|'pass'|'assume'|'error', output)"""
        ctx = self.ctx
        try:
            objs = [ctx.unit_obj(u, q.variant, native=True, extra=q.unit_defs) for u in q.units]
            # C15 frame queries: the units whose static objects are watched are linked with their .data/.bss renamed
            # into sections of their own (vfdata/vfbss), which the replay harness compares before and after the call
            for u in getattr(q, "frame_units", []) or []:
                o = ctx.unit_obj(u, q.variant, native=True, extra=q.unit_defs)
                o2 = os.path.join(wd, "fr_" + os.path.basename(o))
                rc, so, se = sh(["objcopy", "--set-section-flags", ".bss=alloc,load,contents,data", "--rename-section", ".bss=vfbss",
                                 "--rename-section", ".data=vfdata", o, o2])
                if rc:
                    return "error", "objcopy failed: " + se[-300:]
                objs.append(o2)
            # C14 kernel queries: the real kernel, assembled by yasm from the snapshot, its entry symbols renamed to vkreal
            for u in getattr(q, "asm_units", []) or []:
                o = os.path.join(wd, "asm_" + re.sub(r"[^A-Za-z0-9]", "_", u) + ".o")
                rc, so, se = sh(["yasm", "-f", "elf64", "-I", ctx.snap, "-I", os.path.join(ctx.snap, "mpn"), "-o", o, os.path.join(ctx.snap, u)], cwd=os.path.join(ctx.snap, "mpn"))
                if rc:
                    return "error", "yasm failed: " + se[-300:]
                rc, so, se = sh(["nm", "-g", "--defined-only", o])
                syms = [l.split()[-1] for l in so.splitlines() if l.split() and l.split()[-2] in ("T", "t")]
                args = []
                for k, s_ in enumerate(sorted(syms, key=lambda s_: (not s_.startswith("__gmpn"), s_))):
                    args += ["--redefine-sym", "%s=%s" % (s_, "vkreal" if k == 0 else "vkreal_alias%d" % k)]
                rc, so, se = sh(["objcopy"] + args + [o])
                if rc:
                    return "error", "objcopy failed: " + se[-300:]
                objs.append(o)
        except Infra as e:
            return "error", str(e)
        v = "+".join(["native"] + [f for f in q.variant.split("+") if f not in ("exact", "uf", "ufc", "ufr")])
        exe = os.path.join(wd, "replay.exe")
        cmd = ["gcc", "-O1", "-g", "-w", "-fwrapv", "-fsanitize=address", "-fno-omit-frame-pointer", "-DREPLAY", "-DHAVE_CONFIG_H", "-D__GMP_WITHIN_GMP"] + _defflags(q.defs) + ctx.incs(v) + [self._harness_src(q)] + objs + ["-o", exe, "-lm", "-no-pie", "-Wl,--unresolved-symbols=ignore-all"]
        rc, so, se = sh(cmd)
        if rc:
            return "error", "replay compile failed: " + se[-1500:]
        vf = os.path.join(wd, "inputs.txt")
        open(vf, "w").write("\n".join(str(x) for x in vals) + "\n")
        try:
            env = dict(os.environ, ASAN_OPTIONS="detect_leaks=0:abort_on_error=0:exitcode=1")
            rc, so, se = sh([exe, vf], timeout=60, env=env)
        except subprocess.TimeoutExpired:
            return "error", "replay timeout"
        out = so + se
        # persist replay artefacts under /verif/replays/<prop>/<query>/
        rd = os.path.join(VERIF, "replays", ctx.prop, re.sub(r"[^A-Za-z0-9_.-]", "_", q.name))
        os.makedirs(rd, exist_ok=True)
        shutil.copyfile(vf, os.path.join(rd, "inputs.txt"))
        open(os.path.join(rd, "replay.sh"), "w").write(
            "#!/bin/sh\n# replay of query %s (property %s)\n# harness: %s  defs: %s\n# units: %s\n"
            "exec %s/check %s --replay %s\n" % (q.name, ctx.prop, q.harness, " ".join(_defflags(q.defs)), " ".join(q.units), VERIF, ctx.prop, os.path.join(rd, "replay.json")))
        hrec = q.harness
        if os.path.isabs(q.harness) and not q.harness.startswith(VERIF):
            hrec = os.path.join(rd, "harness.c")        # generated harness: keep a copy next to the replay
            if os.path.abspath(q.harness) != os.path.abspath(hrec):
                shutil.copyfile(q.harness, hrec)
        json.dump({"property": ctx.prop, "query": q.name, "harness": hrec, "defs": q.defs, "units": q.units, "unit_defs": q.unit_defs, "frame_units": getattr(q, "frame_units", []), "asm_units": getattr(q, "asm_units", []),
                   "variant": q.variant, "inputs": vals, "cbmc_property": getattr(q, "cex_prop", ""), "native_output": out[-2000:]},
                  open(os.path.join(rd, "replay.json"), "w"), indent=1)
        q.replay_path = os.path.join(rd, "replay.json")
        if "AddressSanitizer" in out:
            m = re.search(r"ERROR: AddressSanitizer: ([^\n]*)", out)
            return "fail", "REPLAY-FAIL AddressSanitizer: " + (m.group(1)[:200] if m else "")
        if "REPLAY-FAIL" in out or rc in (1, -6, -8, -11, 134, 136, 139):
            return "fail", out
        if "REPLAY-ASSUME" in out:
            return "assume", out
        if "REPLAY-OK" in out:
            return "pass", out
        return "error", "rc=%d %s" % (rc, out[-500:])

    def run_all(self, queries, budget_s=None):
        t0 = time.time()
        names = [q.name for q in queries]
        if len(set(names)) != len(names):
            dup = sorted(set(n for n in names if names.count(n) > 1))
            raise Infra("duplicate query names: %s" % dup[:5])
        done = []
        # longest first
        qs = sorted(queries, key=lambda q: -q.timeout)
        with ThreadPoolExecutor(max_workers=NCPU) as ex:
            futs = {ex.submit(self.run_query, q): q for q in qs}
            for f in as_completed(futs):
                q = futs[f]
                try:
                    f.result()
                except Exception as e:
                    q.status, q.detail = "error", "exception: %r" % e
                done.append(q)
                if q.status != "discharged":
                    log("  [%s] %s %s" % (q.status, q.name, q.detail[:400]))
                elif os.environ.get("VERIF_VERBOSE"):
                    log("  [ok %.1fs] %s" % (q.solver_s, q.name))
        return done


# ----------------------------------------------------------------------------------------
def load_known():
    known, fixed = [], []
    p = os.path.join(VERIF, "known_findings.txt")
    if os.path.exists(p):
        for ln in open(p):
            ln = ln.strip()
            if ln.startswith("known:"):
                m = re.match(r"known:\s*property=(\S+)\s+match=(\S+)\s+(.*)$", ln)
                if m:
                    known.append({"property": m.group(1), "match": m.group(2), "what": m.group(3)})
            elif ln.startswith("fixed:"):
                fixed.append(ln)
    return known, fixed


def validate_inline_asm(ctx):
    """§2.6: gcc-compile the translated longlong macros and the real asm macros, run corner
    vectors + seeded random vectors through both, any difference = ENCODING-MISMATCH."""
    wd = os.path.join(ctx.scratch, "valasm")
    os.makedirs(wd, exist_ok=True)
    src = os.path.join(VERIF, "harness", "val_longlong.c")
    exes = []
    for tag, variant in (("real", "native"), ("enc", "exact")):
        exe = os.path.join(wd, "val_" + tag)
        cmd = ["gcc", "-O1", "-w", "-DHAVE_CONFIG_H", "-D__GMP_WITHIN_GMP", "-DVF_NATIVE_ENCODING"] + ctx.incs(variant) + [src, "-o", exe]
        rc, so, se = sh(cmd)
        if rc:
            raise Infra("encoding validation compile failed (%s): %s" % (tag, se[-2000:]))
        exes.append(exe)
    outs = []
    for e in exes:
        rc, so, se = sh([e, str(ctx.seed)], timeout=60)
        if rc:
            raise Infra("encoding validation run failed: %s %s" % (so[-300:], se[-300:]))
        outs.append(so)
    if outs[0] != outs[1]:
        raise Infra("ENCODING-MISMATCH: translated longlong.h macros disagree with the real inline asm")
    return len(outs[0].splitlines())


def write_evidence(ctx, queries, level, extra_cov=None, assumptions=None, violations=0, note=None):
    disc = [q for q in queries if q.status == "discharged"]
    inconc = [q for q in queries if q.status == "inconclusive"]
    funcs = sorted(set(f for q in queries for f in q.funcs))
    samples = []
    seen_h = set()
    for q in queries:
        if q.harness in seen_h and len(samples) >= 3:
            continue
        seen_h.add(q.harness)
        if len(samples) < 12:
            samples.append({"query": q.name, "harness": q.harness, "shape": q.shape, "domain": q.domain, "units": q.units,
                            "unwind": q.unwind, "status": q.status, "solver_s": round(q.solver_s, 2), "properties_checked": q.n_props,
                            "cbmc": getattr(q, "cmd", "")})
    domains = {}
    for q in queries:
        domains[q.domain] = domains.get(q.domain, 0) + 1
    cov = {
        "evaluations": len(queries),
        "distinct_nontrivial": len(set(q.name for q in disc)),
        "rule": "one evaluation = one solver query (concrete shape x harness, all limb/byte contents symbolic); it counts as non-trivial "
                "only if every CBMC property came back SUCCESS *and* the harness's WITNESS assertion (assert(0) after the last check) came back "
                "FAILED, i.e. the end of the harness is reachable under the assumptions; distinct = distinct query names",
        "samples": samples,
        "states": max(1, len(disc)),
        "transitions": max(1, sum(q.n_props for q in disc)),
        "traces_validated_against_impl": sum(1 for q in queries if q.status in ("violation", "unconfirmed")),
        "queries_generated": len(queries),
        "queries_discharged": len(disc),
        "queries_inconclusive": len(inconc),
        "inconclusive": [{"query": q.name, "detail": q.detail} for q in inconc][:50],
        "errors": [{"query": q.name, "status": q.status, "detail": q.detail[:300]} for q in queries if q.status in ("error", "vacuous")][:50],
        "cbmc_properties_checked": sum(q.n_props for q in queries),
        "witnesses_confirmed": len(disc),
        "functions_encoded": funcs,
        "domains": domains,
        "stubs": sorted(set(s for q in queries for s in q.stubs)),
        "solver": "cbmc 6.11.0 + cadical (SAT), per-query timeout",
        "solver_seconds_total": round(sum(q.solver_s for q in queries), 1),
        "solver_seconds_max": round(max([q.solver_s for q in queries] + [0]), 1),
        "snapshot_files": ctx.n_snap,
        "inline_asm_statements_translated": getattr(ctx, "n_inline_asm", 0),
        "encoding_validation_vectors": getattr(ctx, "n_val_vectors", 0),
        "exhaustive": False,
        "explanation": note or "",
    }
    fam = {}
    for q in queries:
        k = q.name.split(".")[0]
        f = fam.setdefault(k, {"queries": 0, "discharged": 0, "solver_s": 0.0, "max_s": 0.0})
        f["queries"] += 1; f["discharged"] += q.status == "discharged"; f["solver_s"] = round(f["solver_s"] + q.solver_s, 1); f["max_s"] = round(max(f["max_s"], q.solver_s), 1)
    cov["families"] = fam
    if extra_cov:
        cov.update(extra_cov)
    ev = {
        "property_id": ctx.prop, "tier": ctx.tier, "seed": ctx.seed, "level": level,
        "coverage": cov,
        "assumptions": assumptions or [],
        "wall_s": round(time.time() - ctx.t0, 1),
        "violations": violations,
    }
    # (seedtest.sh redirects the evidence of runs against a deliberately broken tree away from the committed directory)
    evdir = os.environ.get("VERIF_EVIDENCE_DIR") or os.path.join(VERIF, "evidence")
    os.makedirs(evdir, exist_ok=True)
    json.dump(ev, open(os.path.join(evdir, ctx.prop + ".json"), "w"), indent=1)


G = "mpn/generic/"
MPZ_BASE = ["memory.c", "mpz/realloc.c", "assert.c", "errno.c", "mp_bpl.c"]
MPN_LIN = [G + x + ".c" for x in ("add_n", "sub_n", "cmp", "add", "sub", "add_1", "sub_1", "copyi", "copyd", "zero", "lshift", "rshift", "neg_n", "com_n", "zero_p")]

COMMON_ASSUMPTIONS = [
    "CBMC 6.11.0 semantics of C (LP64, little endian) and its SAT back end (cadical) are trusted",
    "x86-64 inline asm of mpn/x86_64/longlong_inc.h is replaced by a C translation generated on every run (lib/asm_inline.py); the translation is compared against the real asm on corner+random vectors natively on every run",
    "config.h is the pinned configure output minus HAVE_ATTRIBUTE_MODE (CBMC ignores mode(DI)); mpir.h is regenerated from gmp-h.in with the pinned substitutions",
    "malloc never fails (--no-malloc-may-fail): allocation failure aborts in MPIR by design and is outside every property",
    "sizes/allocations/sign patterns/alias patterns are concrete per query (enumerated by the driver); limb contents are solver variables",
    "mpz/export.c and mpz/import.c: the alignment idiom '(char *) data - (char *) NULL' is rewritten to '(unsigned long) data' in the snapshot copy (pointer difference with NULL is UB that CBMC refuses to look past)",
]


def reuse(ctx, modname, regex, extra_defs=None, prefix="", exclude=None, transform=None):
    """queries of another property module (its harness families are shared), filtered, renamed and re-parameterised"""
    import importlib
    m = importlib.import_module(modname)
    out = []
    for q in m.queries(ctx):
        if not re.search(regex, q.name) or (exclude and re.search(exclude, q.name)):
            continue
        q.name = prefix + q.name
        q.defs.update(extra_defs or {})
        q.shape = dict(q.defs)
        if transform:
            transform(q)
        out.append(q)
    return out


def finish(ctx, queries, level="model_checking", extra_cov=None, assumptions=None, note=None):
    """print verdict lines, write evidence, return exit code"""
    known, fixed = load_known()
    viol = [q for q in queries if q.status == "violation"]
    unconf = [q for q in queries if q.status == "unconfirmed"]
    errs = [q for q in queries if q.status in ("error", "vacuous")]
    new_viol = []
    for q in viol:
        k = [e for e in known if e["property"] == ctx.prop and re.fullmatch(e["match"], q.name)]
        if k:
            log("KNOWN-FINDING: property=%s %s (query %s)" % (ctx.prop, k[0]["what"], q.name))
        else:
            new_viol.append(q)
    notes = sorted(set(n for q in queries for n in q.ub_notes))
    for n in notes[:20]:
        log("UB-NOTE (signed-overflow / over-wide-shift class, not a VIOLATION): %s" % n)
    extra_cov = dict(extra_cov or {})
    extra_cov["ub_notes"] = notes
    write_evidence(ctx, queries, level, extra_cov, (assumptions or []) + COMMON_ASSUMPTIONS, len(viol), note)
    n = len(queries)
    nd = sum(1 for q in queries if q.status == "discharged")
    ni = sum(1 for q in queries if q.status == "inconclusive")
    log("%s tier=%s: %d queries, %d discharged, %d inconclusive, %d violations, %d unconfirmed cex, %d errors, wall %.0fs"
        % (ctx.prop, ctx.tier, n, nd, ni, len(viol), len(unconf), len(errs), time.time() - ctx.t0))
    slow = sorted(queries, key=lambda q: -q.solver_s)[:6]
    log("slowest: " + ", ".join("%s %.0fs" % (q.name, q.solver_s) for q in slow))
    for q in new_viol:
        log("VIOLATION property=%s replay=%s" % (ctx.prop, q.replay_path))
        log("   query=%s %s" % (q.name, q.detail[:500]))
    if new_viol:
        return 1
    if errs:
        for q in errs[:10]:
            log("BROKEN-CHECK query=%s status=%s %s" % (q.name, q.status, q.detail[:600]))
        return 2
    if unconf:
        for q in unconf[:10]:
            log("UNCONFIRMED-CEX query=%s %s" % (q.name, q.detail[:600]))
        return 2
    return 0
