#!/bin/sh
# usage: seedrun.sh <seed-dir-name> <PROP> [check args...]
# Runs ./check <PROP> against a scratch copy of /repo with the seeded patch applied (so /repo itself is never touched and
# several seeds can run while /repo is in use).  The copy holds sources + configure outputs only and is removed afterwards.
# Evidence of these runs goes to /var/tmp/verif_seed_evidence, never to /verif/evidence.
s=/verif/seeded/$1; p=$2; shift 2
c=/var/tmp/seedrepo.$$.$(basename $s)
mkdir -p $c
rsync -a --exclude .git --exclude '*.o' --exclude '*.lo' --exclude '*.a' --exclude '*.la' --exclude .libs --exclude 'tests/*/t-*' --exclude doc --exclude 'build.vc*' --exclude tune /repo/ $c/
( cd $c && patch -p1 -s < "$s/patch.diff" ) || { echo "patch does not apply"; rm -rf $c; exit 9; }
( cd /verif && VERIF_REPO=$c VERIF_EVIDENCE_DIR=/var/tmp/verif_seed_evidence ./check "$p" "$@" ); rc=$?
rm -rf $c
echo "seedrun $(basename $s) $p rc=$rc"
exit $rc
