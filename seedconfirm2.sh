#!/bin/sh
# usage: seedconfirm2.sh <built worktree> <seed-dir> : like seedconfirm.sh, for seeds whose demonstration is a script demo.sh <worktree>
# (kernels the default build does not compile are assembled by the demo itself).  Writes <seed-dir>/confirm.txt
wt=$1; s=$2; out="$s/confirm.txt"; : > "$out"
cd "$wt" || exit 9
git checkout -- .
sh "$s/demo.sh" "$wt" >/dev/null 2>&1; echo "unpatched demo rc=$?" >> "$out"
git apply "$s/patch.diff" || { echo "patch-does-not-apply" >> "$out"; exit 1; }
make -j8 >"$wt/make.seed.out" 2>&1 || { echo "patched-build-failed" >> "$out"; git checkout -- .; exit 1; }
sh "$s/demo.sh" "$wt" >/dev/null 2>&1; echo "patched demo rc=$?" >> "$out"
make check -j8 >"$wt/check.seed.out" 2>&1
grep -E "^# (TOTAL|PASS|FAIL|ERROR)" "$wt/check.seed.out" | awk '{a[$2]+=$3} END{for(k in a) printf "%s %s ", k, a[k]; print ""}' >> "$out"
git checkout -- . ; make -j8 >/dev/null 2>&1
cat "$out"
