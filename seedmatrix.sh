#!/bin/sh
# usage: seedmatrix.sh <seed>[:<only-regex>] ... : runs the quick command of each seed's property (optionally restricted to the query
# families named by the regex, a subset of the registered quick command) against a scratch copy of /repo with the seed applied
# (seedrun.sh); writes /var/tmp/matrix/<seed>.log and appends one line per seed to /var/tmp/matrix/summary.txt
mkdir -p /var/tmp/matrix
for a in "$@"; do
  s=${a%%:*}; f=""; case "$a" in *:*) f=${a#*:};; esac
  p=${s%%_*}
  t0=$(date +%s)
  if [ -n "$f" ]; then /verif/seedrun.sh $s $p --tier quick --only "$f" > /var/tmp/matrix/$s.log 2>&1; rc=$?
  else /verif/seedrun.sh $s $p --tier quick > /var/tmp/matrix/$s.log 2>&1; rc=$?; fi
  t1=$(date +%s)
  echo "$s only='$f' rc=$rc secs=$((t1-t0)) $(grep -c '^VIOLATION' /var/tmp/matrix/$s.log) violations; $(grep -m1 '^VIOLATION' /var/tmp/matrix/$s.log)" >> /var/tmp/matrix/summary.txt
done
