#!/bin/sh
# usage: seedconfirm.sh <worktree> <seed-dir> : confirms a seeded change in a scratch worktree (never /repo):
#   with the patch: builds, the pinned suite passes (198), the demonstration FAILS; without it: the demonstration passes.
# writes <seed-dir>/confirm.txt
wt=$1; s=$2
cd "$wt" || exit 9
git checkout -- . ; make -j8 >/dev/null 2>&1
out="$s/confirm.txt"; : > "$out"
demo=$(ls "$s"/demo.c "$s"/demo.cc 2>/dev/null | head -1)
cc="gcc -O2 -w"; case "$demo" in *.cc) cc="g++ -O2 -w";; esac
libs="$wt/.libs/libmpir.a"; case "$demo" in *.cc) libs="$wt/.libs/libmpirxx.a $wt/.libs/libmpir.a";; esac
build_demo() { $cc "$demo" -I"$wt" $libs -lm -lpthread -o "$wt/seed_demo" 2>>"$out"; }
build_demo || { echo "demo-compile-failed-unpatched" >> "$out"; exit 1; }
timeout 600 "$wt/seed_demo" >/dev/null 2>&1; rc0=$?
echo "unpatched demo rc=$rc0" >> "$out"
git apply "$s/patch.diff" || { echo "patch-does-not-apply" >> "$out"; exit 1; }
make -j8 >"$wt/make.seed.out" 2>&1 || { echo "patched-build-failed" >> "$out"; git checkout -- .; exit 1; }
build_demo
timeout 600 "$wt/seed_demo" >/dev/null 2>&1; rc1=$?
echo "patched demo rc=$rc1" >> "$out"
make check -j12 >"$wt/check.seed.out" 2>&1
grep -E "^# (TOTAL|PASS|FAIL|ERROR)" "$wt/check.seed.out" | awk '{a[$2]+=$3} END{for(k in a) printf "%s %s ", k, a[k]; print ""}' >> "$out"
git checkout -- . ; make -j8 >/dev/null 2>&1
cat "$out"
