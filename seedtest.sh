#!/bin/sh
# usage: seedtest.sh <seed-dir-name> <PROP> [check args...]   : apply seeded patch to /repo, run the check, always revert
s=/verif/seeded/$1; p=$2; shift 2
cd /repo || exit 9
if ! git diff --quiet; then echo "/repo not clean"; exit 9; fi
git apply "$s/patch.diff" || { echo "patch does not apply"; exit 9; }
( cd /verif && VERIF_EVIDENCE_DIR=/var/tmp/verif_seed_evidence ./check "$p" "$@" ); rc=$?
git -C /repo checkout -- . 
echo "seedtest $1 $p rc=$rc"
exit $rc
