#!/usr/bin/env python3
"""regenerates MANIFEST.json from props/*.py metadata (MANIFEST dict in each module)"""
import json, os, sys, importlib
HERE = os.path.dirname(os.path.abspath(__file__))
sys.path.insert(0, os.path.join(HERE, "lib")); sys.path.insert(0, os.path.join(HERE, "props"))
ids = [json.loads(l)["id"] for l in open(os.path.join(HERE, "properties.jsonl"))]
checks, na = [], []
for i in ids:
    p = os.path.join(HERE, "props", i + ".py")
    m = importlib.import_module(i) if os.path.exists(p) else None
    meta = getattr(m, "MANIFEST", None) if m else None
    if not meta or meta.get("not_applicable"):
        na.append({"property_id": i, "reason": (meta or {}).get("not_applicable", "check not built yet in this session (framework under construction; see DESIGN.md section 4 for the plan)")})
        continue
    checks.append({
        "property_id": i,
        "quick_cmd": "./check %s --tier quick" % i,
        "thorough_cmd": "./check %s --tier thorough" % i,
        "evidence_file": "evidence/%s.json" % i,
        "replay_cmd_template": "./check %s --replay {path}" % i,
        "engine": meta.get("engine", "cbmc-c"),
        "level_claimed": {"category": getattr(m, "LEVEL", "model_checking"), "text": meta["text"], "design_ref": meta.get("design_ref", "DESIGN.md section 4 " + i)},
        "level_note": meta["note"],
        "technique": meta.get("technique", "bounded symbolic execution of the real C sources with CBMC (SAT), concrete shapes x symbolic limb contents, native replay of counterexamples"),
    })
man = {
    "version": 1,
    "setup_cmd": "true",
    "hooks": {"guard": "WBHART_MPIR_VERIF", "enable": "no source hooks are needed: checks compile /repo's sources directly with goto-cc/gcc from a snapshot taken at run time",
              "baseline_off_cmd": "cd /repo && make check", "source_commits": [], "add_only": True},
    "engines": [
        {"name": "cbmc-c", "path": "lib/vf.py", "serves_properties": [c["property_id"] for c in checks if c["engine"] == "cbmc-c"],
         "kind_free_text": "goto-cc + cbmc 6.11 (cadical) on the real translation units; inline asm translated by lib/asm_inline.py"},
        {"name": "asm2c", "path": "lib/asm2c.py", "serves_properties": [c["property_id"] for c in checks if c["engine"] == "asm2c"],
         "kind_free_text": "own yasm/Intel-syntax x86-64 -> C translator (ISA semantics), output checked by cbmc against the portable C twin; native replay against the yasm-assembled kernel"},
        {"name": "ir2smt", "path": "lib/ir2smt.py", "serves_properties": [c["property_id"] for c in checks if c["engine"] == "ir2smt"],
         "kind_free_text": "clang++-14 -O1 LLVM IR of generated mpirxx.h expression wrappers -> SMT-LIB (own encoder), z3 with cvc5 cross-check; models replayed with g++ against the native library"},
    ],
    "checks": checks,
    "not_applicable": na,
    "notes": "All checks snapshot /repo's working tree at run time; scratch under /var/tmp is removed on exit. Exit 2 = broken check (infrastructure), never a VIOLATION.",
}
json.dump(man, open(os.path.join(HERE, "MANIFEST.json"), "w"), indent=1)
print("checks:", [c["property_id"] for c in checks], "na:", [n["property_id"] for n in na])
